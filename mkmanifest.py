#!/usr/bin/env python3
"""Generates MANIFEST.json from the table below (kept in one place so it is always valid)."""
import json, sys
ALL = ["C%02d" % i for i in range(1, 21)]
BASE = "cd /repo && go test -mod=mod -vet=off -count=1 -timeout 25m ./..."
claimed = {
 "C12": dict(cat="exploration", ref="5 C12",
   text="Bounded-exhaustive: every single firewall rule over the product of 10 pattern kinds per field x 7 actions and every ordered rule list up to length 2 (quick) / 3 (thorough) over a 12-rule core, each on 16 packets, decided against a reference interpreter written from the statement; uninterpretable lists must be refused.",
   note="Trusts the reference interpreter (Go regexp with ^(?:re)$ anchoring) and that two values per packet field suffice to separate match/no-match for the generated patterns.",
   tech="bounded-exhaustive enumeration of inputs against a reference model (explicit-state, real code)"),
}
na_reason = "check not built yet in this session; see DESIGN.md for the planned bounded-exhaustive check"
checks = []
for pid in ALL:
    if pid in claimed:
        c = claimed[pid]
        checks.append({
            "property_id": pid,
            "quick_cmd": "./vcheck %s --tier quick" % pid,
            "thorough_cmd": "./vcheck %s --tier thorough" % pid,
            "evidence_file": "/verif/evidence/%s.json" % pid,
            "replay_cmd_template": "./vcheck %s --replay {path}" % pid,
            "engine": c.get("engine", "harness"),
            "level_claimed": {"category": c["cat"], "text": c["text"], "design_ref": c["ref"]},
            "level_note": c["note"],
            "technique": c["tech"],
        })
m = {
 "version": 1,
 "setup_cmd": "./setup.sh",
 "hooks": {
   "guard": "verif",
   "enable": "go1.26.8 test -c -tags verif (harness) / go1.26.8 build -tags verif ./cmd/receptor-cl (daemon); done by ./vcheck on every run",
   "baseline_off_cmd": BASE,
   "source_commits": json.load(open("hook_commits.json")) if __import__("os").path.exists("hook_commits.json") else [],
   "add_only": True,
 },
 "engines": [
   {"name": "harness", "path": "/verif/harness", "serves_properties": sorted(claimed), "kind_free_text": "hand-written explorer: coordinator + worker processes running the real receptor packages (go1.26.8, testing/synctest virtual time, harness-owned links, controlled scheduler over hook points, crash-point enumeration on the real daemon)"},
 ],
 "checks": checks,
 "not_applicable": [{"property_id": p, "reason": na_reason} for p in ALL if p not in claimed],
 "notes": "Every check rebuilds the harness from /repo's working tree with -tags verif. Known findings: /verif/known_findings.json.",
}
json.dump(m, open("MANIFEST.json", "w"), indent=1)
print("claimed:", sorted(claimed))
