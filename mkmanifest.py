#!/usr/bin/env python3
"""Generates MANIFEST.json from the table below (kept in one place so it is always valid)."""
import json, sys
ALL = ["C%02d" % i for i in range(1, 21)]
BASE = "cd /repo && go test -mod=mod -vet=off -count=1 -timeout 25m ./..."
claimed = {
 "C01": dict(cat="model_checking", ref="5 C01",
   text="Stateless model checking of the implementation: every 3-node weighted topology (and seven 4-node ones) x every sequence of <=k link down/up/silent, node stop/restart events x every delivery schedule of the flooded routing messages with <=d deviations from the canonical order (state-hash pruning), on real Netceptor objects in a testing/synctest bubble with harness-owned links; after a fair closure every live node's table is compared with Floyd-Warshall on the ground truth (exact reachable set, least-cost next hop, path cost, loop-free walk).",
   note="Macro-step atomicity (the explorer owns delivery order, timer ticks and events; the Go scheduler orders goroutines inside one delivery); restarts >= 1 virtual second apart; pruning assumes the canonical state determines the future; bounds completed are in the evidence (counters.scenarios_bound_*_complete).",
   tech="stateless deviation-bounded DFS over delivery schedules of the real code (synctest virtual time) with state-hash pruning"),
 "C07": dict(cat="exploration", ref="5 C07",
   text="Bounded-exhaustive message grammar (every length/type byte/JSON shape, every field of routing updates and advertisements absent or wrongly typed, absurd-but-typed updates, every data-packet length and header combination) delivered by a scripted peer to a real node in both protocol phases, one synctest bubble per input; afterwards the node must be alive, not shut down, and answer pings of a well-behaved real neighbour both ways.",
   note="Inputs are drawn from an explicit grammar, not all byte strings; the harness session stands for every backend (the real TCP/UDP/websocket receive paths only hand datagrams to the same runProtocol loop).",
   tech="bounded-exhaustive input enumeration against the real protocol loop in a synctest bubble, liveness oracle"),
 "C08": dict(cat="exploration", ref="5 C08",
   text="Bounded-exhaustive control-service inputs (plain-text forms, every field of every command absent or of every JSON type, malformed/huge JSON, path-like and on-disk-only unit IDs, disconnects at every 7th prefix, pairs of requests) through the real RunControlSession and Workceptor; ERROR reply demanded where the reference grammar says invalid; liveness probes on the same and on fresh sessions; lock waits are caught by a real-time watchdog with goroutine dump.",
   note="In-process sessions over an in-memory connection (the Unix/TCP listeners only accept and hand over the connection); scripted in-process work types.",
   tech="bounded-exhaustive input enumeration through the real control session in a synctest bubble, reference grammar + liveness oracle"),
 "C09": dict(cat="exploration", ref="5 C09",
   text="The full product certificate {issuer x validity x EKU x 8 name sets} x 11 pin lists x client/server role x receptor/DNS/no name mode is decided by ReceptorVerifyFunc and compared with the statement's conjunction; the same certificates go through real crypto/tls handshakes using the configurations built by PrepareTLSClientConfig/GetClientTLSConfig/PrepareTLSServerConfig.",
   note="Go's x509 path building is trusted; absent EKU = unrestricted; the mutually authenticated mesh stream listener (packet source as expected name) is not yet exercised.",
   tech="exhaustive enumeration of a finite configuration product against a reference decision"),
 "C12": dict(cat="exploration", ref="5 C12",
   text="Bounded-exhaustive: every single firewall rule over the product of 10 pattern kinds per field x 7 actions and every ordered rule list up to length 2 (quick) / 3 (thorough) over a 12-rule core, each on 16 packets, decided against a reference interpreter written from the statement; uninterpretable lists must be refused.",
   note="Trusts the reference interpreter (Go regexp with ^(?:re)$ anchoring) and that two values per packet field suffice to separate match/no-match for the generated patterns; the rule loop of handleMessageData is replicated at this level.",
   tech="bounded-exhaustive enumeration of inputs against a reference model (real code)"),
 "C15": dict(cat="exploration", ref="5 C15",
   text="Exhaustive product 5 commands x 3 connection kinds x 5 work-type situations x 15 tokens (incl. alg none, HS256 keyed with the public key, swapped payload, other audience, expired) through the real control session with recording in-process units: effect iff the statement allows it, ERROR otherwise.",
   note="Connection kind is presented through RemoteAddr().Network() of an in-memory connection; RSA-2048 keys.",
   tech="exhaustive enumeration of a finite configuration product against the statement"),
 "C19": dict(cat="exploration", ref="5 C19",
   text="All 64 letter-case spellings of the secret_ prefix, near misses, maps with 0..3 secret and 0..2 plain parameters, with/without TLS profile, followed by every sequence of <=2 (quick) / <=3 (thorough) operations from {status, list, list id, cancel, release, Workceptor restart}; every response byte is scanned for the marker values.",
   note="Remote node unreachable (the unit stays in the not-yet-started state); the status file on disk is not part of the API.",
   tech="bounded-exhaustive enumeration of inputs and operation sequences with a marker-scanning oracle"),
 "C20": dict(cat="exploration", ref="5 C20",
   text="Every node-ID byte length 0..300 (+1000, 16 K, 64 K boundaries) in ASCII/2-/3-byte UTF-8, invalid UTF-8, lists with duplicates and case variants, DNS and IPv4/IPv6/v4-mapped names, validity windows, crafted certificates with foreign otherName OIDs: names read back must equal names requested, chain to the CA, and receptor's verification accepts exactly the requested IDs.",
   note="Go's x509 parser is the reference for DNS/IP names.",
   tech="bounded-exhaustive enumeration of inputs through the real tooling chain with a round-trip oracle"),
}
na_reason = "check not built yet in this session; see DESIGN.md for the planned bounded-exhaustive check"
checks = []
for pid in ALL:
    if pid in claimed:
        c = claimed[pid]
        checks.append({
            "property_id": pid,
            "quick_cmd": "./vcheck %s --tier quick" % pid,
            "thorough_cmd": "./vcheck %s --tier thorough" % pid,
            "evidence_file": "/verif/evidence/%s.json" % pid,
            "replay_cmd_template": "./vcheck %s --replay {path}" % pid,
            "engine": c.get("engine", "harness"),
            "level_claimed": {"category": c["cat"], "text": c["text"], "design_ref": c["ref"]},
            "level_note": c["note"],
            "technique": c["tech"],
        })
m = {
 "version": 1,
 "setup_cmd": "./setup.sh",
 "hooks": {
   "guard": "verif",
   "enable": "go1.26.8 test -c -tags verif (harness) / go1.26.8 build -tags verif ./cmd/receptor-cl (daemon); done by ./vcheck on every run",
   "baseline_off_cmd": BASE,
   "source_commits": ["c78f4a1"],
   "add_only": True,
 },
 "engines": [
   {"name": "harness", "path": "/verif/harness", "serves_properties": sorted(claimed), "kind_free_text": "hand-written explorer: coordinator + worker processes running the real receptor packages (go1.26.8, testing/synctest virtual time, harness-owned links, controlled scheduler over hook points, crash-point enumeration on the real daemon)"},
 ],
 "checks": checks,
 "not_applicable": [{"property_id": p, "reason": na_reason} for p in ALL if p not in claimed],
 "notes": "Every check rebuilds the harness from /repo's working tree with -tags verif. Known findings: /verif/known_findings.json.",
}
json.dump(m, open("MANIFEST.json", "w"), indent=1)
print("claimed:", sorted(claimed))
