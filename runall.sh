#!/bin/bash
# runall.sh [tier]: runs every claimed check once, prints one summary line per property.
TIER=${1:-quick}
cd "$(dirname "$0")"
for p in $(python3 -c "import json; print(' '.join(c['property_id'] for c in json.load(open('MANIFEST.json'))['checks']))"); do
  start=$(date +%s)
  out=$(./vcheck $p --tier $TIER 2>&1); rc=$?
  echo "$p rc=$rc $(( $(date +%s) - start ))s | $(echo "$out" | grep -E "^$p " | tail -1) | $(echo "$out" | grep -cE '^KNOWN-FINDING') known | $(echo "$out" | grep -E '^(VIOLATION|UNSTABLE|HARNESS)' | head -3 | tr '\n' ' ')"
done
