package harness

import (
	"encoding/json"
	"fmt"
	"io"
	"net"
	"os"
	"path/filepath"
	"strings"
	"sync"
	"time"
)

// C05 (b) — results of REMOTE work: node n1 submits a unit to node n2 (two real daemons); the TCP link
// between them runs through a relay owned by the harness, which cuts it at a chosen moment for a chosen
// time (n1 re-dials), or n2 is killed and restarted instead. `work results` asked on n1 — early or late,
// from an offset — must deliver exactly the unit's output from that offset and end once the unit is done.

type tcpRelay struct {
	ln     net.Listener
	target string
	mu     sync.Mutex
	conns  []net.Conn
	cut    bool
}

func newTCPRelay(target string) (*tcpRelay, int, error) {
	ln, err := net.Listen("tcp", "127.0.0.1:0")
	if err != nil {
		return nil, 0, err
	}
	r := &tcpRelay{ln: ln, target: target}
	go func() {
		for {
			c, err := ln.Accept()
			if err != nil {
				return
			}
			r.mu.Lock()
			cut := r.cut
			r.mu.Unlock()
			if cut {
				c.Close()
				continue
			}
			up, err := net.DialTimeout("tcp", r.target, 2*time.Second)
			if err != nil {
				c.Close()
				continue
			}
			r.mu.Lock()
			r.conns = append(r.conns, c, up)
			r.mu.Unlock()
			go func() { io.Copy(up, c); up.Close(); c.Close() }()
			go func() { io.Copy(c, up); up.Close(); c.Close() }()
		}
	}()
	return r, ln.Addr().(*net.TCPAddr).Port, nil
}

func (r *tcpRelay) setCut(cut bool) {
	r.mu.Lock()
	r.cut = cut
	conns := r.conns
	if cut {
		r.conns = nil
	}
	r.mu.Unlock()
	if cut {
		for _, c := range conns {
			c.Close()
		}
	}
}

func (r *tcpRelay) close() {
	r.ln.Close()
	r.setCut(true)
}

type c05rArgs struct {
	Remote  bool
	Unit    string // chatty | cat | slow
	Fault   string // none | cut | restart-n2
	At      int    // ms after the submission was acknowledged
	For     int    // ms the link stays cut
	AskAt   int    // ms after the acknowledgement at which the results are requested
	Offset  int
	AskTwice bool // a second request from offset 0 after the first one ended
}

func (a c05rArgs) String() string {
	return fmt.Sprintf("remote unit=%s fault=%s at=%dms for=%dms ask=%dms offset=%d twice=%v", a.Unit, a.Fault, a.At, a.For, a.AskAt, a.Offset, a.AskTwice)
}

func execC05Remote(a c05rArgs) CaseOut {
	var out CaseOut
	out.Nontrivial = true
	dir, err := os.MkdirTemp(scratchDir(), "c05r-")
	if err != nil {
		out.violate("harness:c05r-tmp", "%v", err)
		return out
	}
	defer os.RemoveAll(dir)
	defer killStrayRunners(dir)
	dir1, dir2 := filepath.Join(dir, "n1"), filepath.Join(dir, "n2")
	os.MkdirAll(dir1, 0o700)
	os.MkdirAll(dir2, 0o700)
	d2, port2, err := startDaemonListening(dir2, "n2", nil)
	if err != nil {
		out.violate("harness:c05r-daemon", "n2: %v", err)
		return out
	}
	n2args := []string{"--tcp-listener", fmt.Sprintf("port=%d", port2), "bindaddr=127.0.0.1"}
	defer func() { d2.kill() }()
	relay, rport, err := newTCPRelay(fmt.Sprintf("127.0.0.1:%d", port2))
	if err != nil {
		out.violate("harness:c05r-relay", "%v", err)
		return out
	}
	defer relay.close()
	d1, err := startDaemon(dir1, "n1", nil, "--tcp-peer", fmt.Sprintf("address=127.0.0.1:%d", rport), "redial=true")
	if err != nil {
		out.violate("harness:c05r-daemon", "n1: %v", err)
		if d1 != nil {
			d1.kill()
		}
		return out
	}
	defer d1.kill()
	if !d1.waitRoute("n2", 15*time.Second) {
		out.violate("harness:c05r-route", "n1 never learned a route to n2")
		return out
	}
	input := "remote-input-line\n"
	want := input
	switch a.Unit {
	case "chatty":
		want += "line1\nline2\nline3\nline4\n"
	case "slow":
		want += "end\n"
	case "ticker":
		want += "tick1\ntick2\ntick3\ntick4\ntick5\ntick6\ntick7\ntick8\n"
	}
	sub := d1.submit("n2", a.Unit, []byte(input), 20*time.Second)
	if sub.ID == "" {
		out.violate("harness:c05r-submit", "%+v", sub)
		return out
	}
	id := sub.ID
	t0 := time.Now()
	at := func(ms int) { time.Sleep(time.Until(t0.Add(time.Duration(ms) * time.Millisecond))) }
	var wg sync.WaitGroup
	var restartErr error
	// the fault
	wg.Add(1)
	go func() {
		defer wg.Done()
		switch a.Fault {
		case "cut":
			at(a.At)
			relay.setCut(true)
			time.Sleep(time.Duration(a.For) * time.Millisecond)
			relay.setCut(false)
		case "restart-n2":
			at(a.At)
			d2.kill()
			time.Sleep(time.Duration(a.For) * time.Millisecond)
			nd, err := startDaemon(dir2, "n2", nil, n2args...)
			if err == nil {
				d2 = nd
			} else {
				restartErr = err
			}
		}
	}()
	// the reader
	type res struct {
		hdr  string
		data []byte
		err  error
		took time.Duration
	}
	ask := func(offset int) res {
		s := time.Now()
		hdr, data, err := d1.results(id, int64(offset), 150*time.Second)
		return res{hdr, data, err, time.Since(s)}
	}
	at(a.AskAt)
	r1 := ask(a.Offset)
	wg.Wait()
	if restartErr != nil {
		out.violate("harness:c05r-restart", "n2 did not restart: %v", restartErr)
	}
	ctx := a.String()
	check := func(r res, offset int, which string) {
		exp := ""
		if offset <= len(want) {
			exp = want[offset:]
		}
		if !strings.HasPrefix(r.hdr, "Streaming results") {
			out.violate("results:remote:refused", "%s: %s request refused: %q (%v)", ctx, which, r.hdr, r.err)
			return
		}
		if r.err != nil {
			out.violate("results:remote:stream-never-ends", "%s: %s request: the stream was still open after 150 s (%v); %d bytes received", ctx, which, r.err, len(r.data))
			return
		}
		if string(r.data) != exp {
			kind := "wrong-bytes"
			if len(r.data) < len(exp) && string(r.data) == exp[:len(r.data)] {
				kind = "ended-early"
			} else if len(r.data) > len(exp) {
				kind = "extra-bytes"
			}
			out.violate("results:remote:"+kind, "%s: %s request received %d bytes %q, output[%d:] is %q", ctx, which, len(r.data), trunc(string(r.data), 80), offset, exp)
		}
	}
	check(r1, a.Offset, "first")
	if a.AskTwice {
		check(ask(0), 0, "second")
	}
	// the unit itself ends finished with the full size
	st, werr := d1.waitState(id, 60*time.Second, 2, 3, 4)
	if werr != nil || st == nil {
		out.violate("results:remote:unit-never-finishes", "%s: the local mirror of the unit never reaches a final state (%v)", ctx, werr)
	} else if st.State == 2 && st.StdoutSize != int64(len(want)) {
		out.violate("results:remote:size-mismatch", "%s: unit finished with recorded size %d, the output has %d bytes", ctx, st.StdoutSize, len(want))
	}
	out.Outcome = fmt.Sprintf("remote %s/%s", a.Unit, a.Fault)
	out.Sample = map[string]any{"case": ctx, "first_request_took_ms": r1.took.Milliseconds(), "bytes": len(r1.data)}
	return out
}

func c05RemoteJobs(thorough bool) []c05rArgs {
	var jobs []c05rArgs
	for _, u := range []string{"cat", "chatty"} {
		for _, ask := range []int{0, 6000} {
			jobs = append(jobs, c05rArgs{Remote: true, Unit: u, Fault: "none", AskAt: ask, AskTwice: true})
			jobs = append(jobs, c05rArgs{Remote: true, Unit: u, Fault: "none", AskAt: ask, Offset: 7})
		}
	}
	step := 600
	if thorough {
		step = 300
	}
	for atMs := 0; atMs <= 3000; atMs += step {
		for _, dur := range []int{700, 3500} {
			for _, ask := range []int{100, 8000} {
				for _, off := range []int{0, 7} {
					if !thorough && off == 7 && ask == 8000 {
						continue
					}
					jobs = append(jobs, c05rArgs{Remote: true, Unit: "chatty", Fault: "cut", At: atMs, For: dur, AskAt: ask, Offset: off, AskTwice: off == 0})
				}
			}
		}
		jobs = append(jobs, c05rArgs{Remote: true, Unit: "chatty", Fault: "restart-n2", At: atMs, For: 800, AskAt: 100, AskTwice: true})
	}
	// a longer unit (8 lines, 0.5 s apart): the fault falls while part of the output has been mirrored, and the
	// mirror has to connect again (remote daemon restarted; link cut for longer than the 30 s idle limit of the stream)
	for atMs := 600; atMs <= 5400; atMs += step {
		jobs = append(jobs, c05rArgs{Remote: true, Unit: "ticker", Fault: "restart-n2", At: atMs, For: 800, AskAt: 100, AskTwice: true})
		if thorough || atMs%1200 == 0 {
			jobs = append(jobs, c05rArgs{Remote: true, Unit: "ticker", Fault: "restart-n2", At: atMs, For: 800, AskAt: 12000, Offset: 7})
		}
	}
	for _, atMs := range []int{1800, 3000} {
		jobs = append(jobs, c05rArgs{Remote: true, Unit: "ticker", Fault: "cut", At: atMs, For: 35000, AskAt: 100, AskTwice: true})
	}
	return jobs
}


func execC05(w *W, raw json.RawMessage) CaseOut {
	var a c05rArgs
	json.Unmarshal(raw, &a)
	return execC05Remote(a)
}

func coordC05(c *Coord) {
	c.runShards()
	if c.stopped() {
		return
	}
	p := c.newPool()
	defer p.close()
	var wg sync.WaitGroup
	sem := make(chan struct{}, p.size())
	for _, j := range c05RemoteJobs(c.Thorough()) {
		if c.stopped() {
			break
		}
		j := j
		wg.Add(1)
		sem <- struct{}{}
		go func() {
			defer wg.Done()
			defer func() { <-sem }()
			r := p.exec(j)
			raw, _ := json.Marshal(j)
			c.record(j.String(), raw, r.Out)
		}()
	}
	wg.Wait()
}
