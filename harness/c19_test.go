package harness

import (
	"bytes"
	"context"
	"crypto/tls"
	"encoding/json"
	"fmt"
	"os"
	"sort"
	"strings"
	"testing"
	"testing/synctest"
	"time"

	"github.com/ansible/receptor/pkg/controlsvc"
	"github.com/ansible/receptor/pkg/workceptor"
)

// C19 — secret work parameters are never disclosed by the API nor sent without TLS.

type c19Case struct {
	Secret []string // keys that are secret by the statement
	Plain  []string // keys that are not
	TLS    bool
	Ops    []string // status | list | listid | cancel | release | restart
	TTL    string   // ttl field of the submission ("" absent; "soon" does not parse: the submission is refused half-way)
}

func isSecretKey(k string) bool { return strings.HasPrefix(strings.ToLower(k), "secret_") }

// restartWork replaces the Workceptor and control server by fresh ones on the same data directory.
func (e *ctlEnv) restartWork() error {
	e.w.Cancel()
	var err error
	e.cs = controlsvc.New(true, e.n)
	controlsvc.MainInstance = e.cs
	e.w, err = workceptor.New(context.Background(), e.n, e.dir)
	if err != nil {
		return err
	}
	workceptor.MainInstance = e.w
	// RegisterWorker rescans the directory; the remote type is built in
	e.w.RegisterWorker("plain", func(_ workceptor.BaseWorkUnitForWorkUnit, w *workceptor.Workceptor, id, wt string) workceptor.WorkUnit {
		u := &scriptedUnit{kind: "hold", env: e}
		u.BaseWorkUnit.Init(w, id, wt, workceptor.FileSystem{}, stubWatcher{})
		return u
	}, false)
	return e.w.RegisterWithControlService(e.cs)
}

func dirEntries(dir string) []string {
	es, _ := os.ReadDir(dir)
	var o []string
	for _, e := range es {
		o = append(o, e.Name())
	}
	sort.Strings(o)
	return o
}

func runC19Case(t *testing.T, c c19Case) CaseOut {
	var out CaseOut
	out.Nontrivial = len(c.Secret)+len(c.Plain) > 0
	bubble(t, func(t *testing.T) {
		e := newCtlEnv("n1", []workTypeSpec{{"plain", "hold", false}})
		defer e.close()
		e.n.SetClientTLSConfig("tlsc", &tls.Config{MinVersion: tls.VersionTLS12}, nil)
		req := map[string]interface{}{"command": "work", "subcommand": "submit", "node": "othernode", "worktype": "plain"}
		if c.TLS {
			req["tlsclient"] = "tlsc"
		}
		markers := map[string]string{} // marker -> key
		plainVals := map[string]string{}
		i := 0
		for _, k := range c.Secret {
			m := fmt.Sprintf("SECRETMARK%03dX", i)
			i++
			req[k] = m
			markers[m] = k
		}
		for _, k := range c.Plain {
			v := fmt.Sprintf("plainval%03d", i)
			i++
			req[k] = v
			plainVals[k] = v
		}
		if c.TTL != "" {
			req["ttl"] = c.TTL
		}
		var transcript bytes.Buffer
		listeners0 := len(e.n.VerifSnapshot().Listeners)
		entries0 := dirEntries(e.dataDir())
		line, _ := json.Marshal(req)
		s, err := e.open()
		if err != nil {
			out.violate("harness:c19-open", "%v", err)
			return
		}
		s.send(append(line, '\n'))
		reply, _ := s.readLine(60 * time.Second)
		transcript.WriteString(reply + "\n")
		unitID := ""
		if strings.HasPrefix(reply, "Work unit created with ID ") {
			unitID = strings.TrimSuffix(strings.TrimPrefix(reply, "Work unit created with ID "), ". Send stdin data and EOF.")
			s.send([]byte("input data\n"))
			s.closeWrite()
			r2, _ := s.readLine(60 * time.Second)
			transcript.WriteString(r2 + "\n")
		}
		s.close()
		badTTL := c.TTL == "soon"
		if badTTL {
			if !strings.HasPrefix(reply, "ERROR") {
				out.violate("secret:bad-ttl-accepted", "submission with ttl %q was accepted: %q", c.TTL, trunc(reply, 100))
			}
			// whatever the refused submission left behind is queried like any other unit
			if ids := e.w.ListKnownUnitIDs(); len(ids) > 0 && unitID == "" {
				unitID = ids[0]
			}
		}
		hasSecret := len(c.Secret) > 0
		if hasSecret && !c.TLS {
			if unitID != "" || !strings.HasPrefix(reply, "ERROR") {
				out.violate("secret:sent-without-tls", "submission with secret keys %v and no TLS profile was accepted (reply %q)", c.Secret, trunc(reply, 100))
			}
			if got := dirEntries(e.dataDir()); strings.Join(got, ",") != strings.Join(entries0, ",") {
				out.violate("secret:stored-before-refusal", "refused submission left files behind: %v", got)
			}
			time.Sleep(3 * time.Second)
			synctest.Wait()
			if n := len(e.n.VerifSnapshot().Listeners); n != listeners0 {
				out.violate("secret:dial-after-refusal", "refused submission opened %d socket(s)", n-listeners0)
			}
		} else if unitID == "" && !badTTL {
			out.violate("secret:legitimate-submit-refused", "submission secret=%v plain=%v tls=%v refused: %q", c.Secret, c.Plain, c.TLS, trunc(reply, 100))
		}
		released := false
		for _, op := range c.Ops {
			if unitID == "" {
				break
			}
			var cmd string
			switch op {
			case "status":
				cmd = "work status " + unitID
			case "list":
				cmd = "work list"
			case "listid":
				cmd = fmt.Sprintf(`{"command":"work","subcommand":"list","unitid":%q}`, unitID)
			case "cancel":
				cmd = "work cancel " + unitID
			case "release":
				cmd = "work release " + unitID
			case "restart":
				if err := e.restartWork(); err != nil {
					out.violate("harness:c19-restart", "%v", err)
				}
				time.Sleep(2 * time.Second)
				synctest.Wait()
				continue
			}
			r, err := e.ask(cmd)
			transcript.WriteString(r + "\n")
			if err != nil {
				out.violate("secret:no-answer:"+op, "no answer to %q: %v", cmd, err)
				continue
			}
			if op == "release" && !strings.HasPrefix(r, "ERROR") {
				released = true
			}
			// non-secret parameters are reported unchanged while the unit exists
			if (op == "status" || op == "listid" || op == "list") && !released && strings.HasPrefix(r, "{") {
				var doc map[string]interface{}
				if json.Unmarshal([]byte(r), &doc) == nil {
					st := doc
					if op != "status" {
						st, _ = doc[unitID].(map[string]interface{})
					}
					ed, _ := st["ExtraData"].(map[string]interface{})
					rp, _ := ed["RemoteParams"].(map[string]interface{})
					for k, v := range plainVals {
						if got, _ := rp[k].(string); got != v {
							out.violate("secret:plain-param-altered", "after %v: parameter %q reported as %q, want %q (reply %s)", c.Ops, k, got, v, trunc(r, 200))
						}
					}
					for k := range rp {
						if isSecretKey(k) {
							out.violate("secret:key-listed", "secret key %q is listed in the response", k)
						}
					}
				}
			}
			time.Sleep(1200 * time.Millisecond)
			synctest.Wait()
		}
		for m, k := range markers {
			if bytes.Contains(transcript.Bytes(), []byte(m)) {
				cls := "lowercase"
				if k != strings.ToLower(k) {
					cls = "mixed-case"
				}
				out.violate("secret:disclosed:"+cls, "value of secret parameter %q appears in an API response; ops=%v; transcript: %s", k, c.Ops, trunc(transcript.String(), 400))
			}
		}
		out.Outcome = fmt.Sprintf("s%d p%d tls=%v unit=%v ops=%d", len(c.Secret), len(c.Plain), c.TLS, unitID != "", len(c.Ops))
	})
	return out
}

func runC19(w *W) {
	ops := []string{"status", "list", "listid", "cancel", "release", "restart"}
	var seqs [][]string
	maxLen := 2
	if w.Thorough() {
		maxLen = 3
	}
	var rec func(p []string)
	rec = func(p []string) {
		if len(p) > 0 {
			// every sequence ends with an observation, otherwise nothing can be seen
			q := append(append([]string{}, p...), "status", "list")
			seqs = append(seqs, q)
		}
		if len(p) == maxLen {
			return
		}
		for _, o := range ops {
			rec(append(append([]string{}, p...), o))
		}
	}
	rec(nil)
	// (1) every letter-case spelling of the prefix, alone
	base := "secret"
	for mask := 0; mask < 64; mask++ {
		b := []byte(base)
		for i := range b {
			if mask&(1<<i) != 0 {
				b[i] -= 32
			}
		}
		key := string(b) + "_k"
		for _, tlsOn := range []bool{true, false} {
			c := c19Case{Secret: []string{key}, TLS: tlsOn, Ops: []string{"status", "listid", "restart", "status", "list"}}
			w.Case(fmt.Sprintf("spelling %s tls=%v", key, tlsOn), func() CaseOut { return runC19Case(w.T, c) })
		}
	}
	// (2) near misses are not secret
	for _, key := range []string{"secret", "secretx", "xsecret_", "_secret_", "secre_t", "s3cret_x"} {
		c := c19Case{Plain: []string{key}, TLS: false, Ops: []string{"status", "list"}}
		w.Case(fmt.Sprintf("nearmiss %s", key), func() CaseOut { return runC19Case(w.T, c) })
	}
	// (2b) submissions that are refused after the unit was stored (ttl that does not parse), and accepted ones with a ttl
	for _, ttl := range []string{"soon", "10m"} {
		for _, ss := range [][]string{{"secret_a"}, {"SECRET_B", "secret_"}} {
			for _, ops := range [][]string{{"status", "list"}, {"list", "listid"}, {"restart", "status", "list"}, {"cancel", "status", "list"}, {"release", "list"}} {
				c := c19Case{Secret: ss, Plain: []string{"plain"}, TLS: true, Ops: ops, TTL: ttl}
				w.Case(fmt.Sprintf("ttl=%s secret=%v ops=%v", ttl, ss, ops), func() CaseOut { return runC19Case(w.T, c) })
			}
		}
	}
	// (2c) queries interleaved with the submission
	w.explorerCase("submit || list p=2", 2, func(r *xrun) []Violation { return runC19Conc(1, r) })
	w.explorerCase("submit || list || list p=1", 1, func(r *xrun) []Violation { return runC19Conc(2, r) })
	// (3) parameter maps x operation sequences
	secretSets := [][]string{nil, {"secret_a"}, {"SECRET_B", "secret_"}, {"secret_a", "Secret_c", "sEcReT_d"}}
	plainSets := [][]string{nil, {"plain"}, {"secretx", "xsecret_"}}
	for si, ss := range secretSets {
		for pi, ps := range plainSets {
			for _, tlsOn := range []bool{true, false} {
				for qi, seq := range seqs {
					if !tlsOn && len(ss) > 0 && qi > 0 {
						continue // refused before anything is stored: the sequence cannot matter
					}
					if !w.Thorough() && (si+pi+qi)%2 == 1 && len(seq) > 3 {
						continue
					}
					c := c19Case{Secret: ss, Plain: ps, TLS: tlsOn, Ops: seq}
					w.Case(fmt.Sprintf("map secret=%v plain=%v tls=%v ops=%v", ss, ps, tlsOn, seq), func() CaseOut {
						o := runC19Case(w.T, c)
						if qi == 3 && tlsOn {
							o.Sample = map[string]any{"case": c, "outcome": o.Outcome}
						}
						return o
					})
				}
			}
		}
	}
}

func init() {
	register(&PropSpec{
		ID:        "C19",
		Level:     "exploration",
		Technique: "bounded-exhaustive enumeration of parameter maps x operation sequences through the real control service and Workceptor (remote submission), scanning every response byte for marker values",
		Rule: "keys: all 64 letter-case spellings of secret_ (alone, with and without TLS profile), near misses (secret, secretx, xsecret_, ...), maps with 0..3 secret and 0..2 plain entries; submissions with a ttl that parses / does not parse (refused after the unit was stored) followed by 5 query sequences; a status / list query interleaved with a submission at every hook point (cooperative scheduler, <=2 preemptions); then every sequence of <=2 (quick; every second longer one) / <=3 (thorough) operations from {status, list, list <id>, cancel, release, restart of the Workceptor on the same directory}, each followed by status+list. " +
			"Each case is a distinct (map, profile, sequence); non-trivial = at least one parameter. Oracle: no marker value of a secret key in any response; plain parameters reported unchanged while the unit exists; secret + no TLS profile => ERROR, data directory unchanged, no socket opened.",
		Assumptions: []string{"the on-disk status file is not part of the API (it stores the parameters for the later remote submission)"},
		Run:         runC19,
		CaseTimeout: 60 * time.Second,
	})
}
