package harness

import (
	"encoding/json"
	"fmt"
	"reflect"
	"strings"
	"testing"
	"testing/synctest"
	"time"

	"github.com/ansible/receptor/pkg/netceptor"
)

// C06 — routing knowledge never regresses; updates are applied and relayed at most once.
//
// Real nodes, bag links (any in-flight update may be delivered next), duplication, loss and replay of
// updates offered as deviations. Monitors run around every single delivery.

type c06Scenario struct {
	Name   string
	Setup  []string // events performed with canonical delivery (monitors on, no exploration)
	Events []string // "up x y", "down x y", "restart x", "twin x at y", "period": explored
	Bound  int
	Pairs  bool     // explore concurrent deliveries to one node instead of dup/drop/replay
	Names  []string // nodes (default a, b, c)
}

type c06Monitor struct {
	m       *mesh
	out     *CaseOut
	prevKN  map[string]map[string]netceptor.VerifNodeInfo // node -> origin -> accepted
	pre     c06Pre
	relayed map[string]int // "x>y|updateID" -> times relayed
	ownSeq  map[string]uint64
	emitPos map[string]int
	chkPos  map[string]int // how far checkEmissions has counted each link's emissions
}

type c06Pre struct {
	valid   bool
	dst     string
	from    string
	upd     wireRoute
	known   map[string]netceptor.VerifNodeInfo
	costs   map[string]map[string]float64
	seen    bool
	conns   []string
	hadConn bool
}

func (mon *c06Monitor) snapshotEmit() {
	mon.m.mu.Lock()
	for k, v := range mon.m.emitted {
		mon.emitPos[k] = len(v)
	}
	mon.m.mu.Unlock()
}

func (mon *c06Monitor) newEmissions(node string) map[string][][]byte {
	res := map[string][][]byte{}
	mon.m.mu.Lock()
	defer mon.m.mu.Unlock()
	for k, v := range mon.m.emitted {
		if strings.HasPrefix(k, node+">") && len(v) > mon.emitPos[k] {
			res[k] = append([][]byte(nil), v[mon.emitPos[k]:]...)
		}
	}
	return res
}

// checkEmissions: I3 (relay at most once per neighbour) and I4 (own updates carry increasing sequence numbers)
func (mon *c06Monitor) checkEmissions(ctx string) {
	mon.m.mu.Lock()
	type em struct {
		link string
		msgs [][]byte
	}
	var all []em
	for k, v := range mon.m.emitted {
		// every emission is counted exactly once, whichever step's check comes across it
		if len(v) > mon.chkPos[k] {
			all = append(all, em{k, append([][]byte(nil), v[mon.chkPos[k]:]...)})
			mon.chkPos[k] = len(v)
		}
	}
	mon.m.mu.Unlock()
	for _, e := range all {
		x := strings.Split(e.link, ">")[0]
		xid := mon.m.nodeID(x)
		for _, d := range e.msgs {
			if len(d) == 0 || d[0] != 1 {
				continue
			}
			var u wireRoute
			if json.Unmarshal(d[1:], &u) != nil {
				continue
			}
			if u.NodeID == xid && u.ForwardingNode == xid {
				// x's own update (or its hello)
				continue
			}
			key := fmt.Sprintf("%s|%p|%s", e.link, mon.m.nodes[x], u.UpdateID) // per incarnation of x
			mon.relayed[key]++
			if mon.relayed[key] > 1 {
				mon.out.violate("flood:relayed-twice", "%s: %s relayed update %s (origin %s #%d) %d times on %s", ctx, x, u.UpdateID, u.NodeID, u.UpdateSequence, mon.relayed[key], e.link)
			}
			if u.ForwardingNode != xid {
				mon.out.violate("flood:relay-keeps-forwarder", "%s: %s relayed an update without naming itself as forwarder (%s)", ctx, x, u.ForwardingNode)
			}
		}
	}
}

func (mon *c06Monitor) preDeliver(link string, msg []byte) {
	mon.pre = c06Pre{}
	mon.snapshotEmit()
	if len(msg) == 0 || msg[0] != 1 {
		return
	}
	var u wireRoute
	if json.Unmarshal(msg[1:], &u) != nil {
		return
	}
	p := strings.Split(link, ">")
	dst := p[1]
	if !mon.m.alive[dst] || mon.m.scripted[dst] {
		return
	}
	// a session from a same-ID twin to a node that is already connected to the other holder of that ID
	// is rejected: its messages are never routing updates
	for _, other := range mon.m.names {
		if other != p[0] && mon.m.nodeID(other) == mon.m.nodeID(p[0]) {
			if s := mon.m.sess[dst+">"+other]; s != nil && !s.isClosed() {
				return
			}
		}
	}
	n := mon.m.nodes[dst]
	vs := n.VerifSnapshot()
	st := n.Status()
	pre := c06Pre{valid: true, dst: dst, from: p[0], upd: u, known: vs.KnownNodes, costs: st.KnownConnectionCosts}
	for _, id := range vs.SeenUpdates {
		if id == u.UpdateID {
			pre.seen = true
		}
	}
	for _, c := range st.Connections {
		pre.conns = append(pre.conns, c.NodeID)
		if c.NodeID == mon.m.nodeID(p[0]) {
			pre.hadConn = true
		}
	}
	mon.pre = pre
}

func lexLess(a, b netceptor.VerifNodeInfo) bool {
	return a.Epoch < b.Epoch || (a.Epoch == b.Epoch && a.Sequence < b.Sequence)
}

func (mon *c06Monitor) postDeliver(link string, msg []byte) {
	pre := mon.pre
	ctx := fmt.Sprintf("deliver %s %s", link, mon.m.canonMsg(msg))
	mon.checkEmissions(ctx)
	if !pre.valid {
		return
	}
	dst := pre.dst
	if !mon.m.alive[dst] {
		return
	}
	n := mon.m.nodes[dst]
	select {
	case <-n.NetceptorDone():
		return // shut itself down (duplicate-node protocol)
	default:
	}
	vs := n.VerifSnapshot()
	st := n.Status()
	u := pre.upd
	dstID := mon.m.nodeID(dst)
	fromID := mon.m.nodeID(pre.from)
	// I4: never holds knowledge about itself
	if _, ok := vs.KnownNodes[dstID]; ok {
		mon.out.violate("know:accepted-own-origin", "%s: %s recorded an update with itself as origin", ctx, dst)
	}
	// I1: accepted (epoch, sequence) per origin never decreases, except through the duplicate hand-over
	for o, was := range pre.known {
		now, ok := vs.KnownNodes[o]
		if !ok {
			mon.out.violate("know:forgotten", "%s: %s forgot origin %s", ctx, dst, o)
			continue
		}
		if lexLess(now, was) && !(u.SuspectedDuplicate != 0 && u.NodeID == o) {
			mon.out.violate("know:regressed", "%s: at %s origin %s went from (e%d,#%d) to (e%d,#%d)", ctx, dst, o, was.Epoch, was.Sequence, now.Epoch, now.Sequence)
		}
	}
	if !pre.hadConn {
		return // handshake phase of this session: messages are not routing updates yet
	}
	acc, known := pre.known[u.NodeID]
	own := u.NodeID == dstID
	stale := pre.seen || own
	if !stale && known && u.SuspectedDuplicate == 0 {
		if u.UpdateEpoch < acc.Epoch || (u.UpdateEpoch == acc.Epoch && u.UpdateSequence <= acc.Sequence) {
			stale = true
		}
	}
	direct := u.NodeID == fromID
	disconnects := u.ForwardingNode != fromID
	if direct {
		if c, ok := u.Connections[dstID]; !ok || c != connCost(st, pre, fromID) {
			disconnects = true // the protocol ends the session here (peer stopped listing us / cost disagreement)
		}
	}
	emitted := mon.newEmissions(dst)
	relays := 0
	for k, msgs := range emitted {
		for _, d := range msgs {
			if len(d) > 0 && d[0] == 1 {
				var e wireRoute
				if json.Unmarshal(d[1:], &e) == nil && e.UpdateID == u.UpdateID {
					relays++
					if strings.HasSuffix(k, ">"+pre.from) {
						mon.out.violate("flood:relayed-back-to-sender", "%s: %s relayed the update back to %s", ctx, dst, pre.from)
					}
				}
			}
		}
	}
	if disconnects {
		return
	}
	if stale && !(own && u.UpdateEpoch > vs.Epoch) {
		// I2: a stale / replayed / own update changes nothing and is not relayed
		if !reflect.DeepEqual(pre.costs, st.KnownConnectionCosts) {
			mon.out.violate("know:stale-update-applied", "%s: stale update (seen=%v accepted=(e%d,#%d)) changed %s's picture from %v to %v", ctx, pre.seen, acc.Epoch, acc.Sequence, dst, pre.costs, st.KnownConnectionCosts)
		}
		if relays > 0 {
			mon.out.violate("flood:stale-update-relayed", "%s: stale update (seen=%v accepted=(e%d,#%d)) was relayed %d times by %s", ctx, pre.seen, acc.Epoch, acc.Sequence, relays, dst)
		}
		return
	}
	if own {
		return
	}
	if u.SuspectedDuplicate == 0 {
		// a genuine update is applied ...
		now := vs.KnownNodes[u.NodeID]
		if now.Epoch != u.UpdateEpoch || now.Sequence != u.UpdateSequence {
			mon.out.violate("know:genuine-update-not-applied", "%s: %s did not record (e%d,#%d), has (e%d,#%d)", ctx, dst, u.UpdateEpoch, u.UpdateSequence, now.Epoch, now.Sequence)
		}
	}
	// ... and relayed exactly once to every other neighbour
	want := 0
	for _, c := range st.Connections {
		if c.NodeID != fromID {
			want++
		}
	}
	if relays != want {
		mon.out.violate("flood:genuine-update-relay-count", "%s: %s relayed the update %d times, has %d other neighbours", ctx, dst, relays, want)
	}
}

func connCost(st netceptor.Status, pre c06Pre, peer string) float64 {
	for _, c := range st.Connections {
		if c.NodeID == peer {
			return c.Cost
		}
	}
	return 1
}

func runC06Once(t *testing.T, sc c06Scenario, r *xrun) []Violation {
	var out CaseOut
	bubble(t, func(t *testing.T) {
		names := sc.Names
		if names == nil {
			names = []string{"a", "b", "c"}
		}
		m := newMesh(defaultConsts, names...)
		m.logEmit = true
		m.idOf = map[string]string{}
		mon := &c06Monitor{m: m, out: &out, relayed: map[string]int{}, emitPos: map[string]int{}, chkPos: map[string]int{}}
		hist := map[string][][]byte{}
		stopped := map[string][]c01Edge{}
		for _, ev := range sc.Setup {
			mon.snapshotEmit()
			m.applyEvent(ev, stopped)
			mon.checkEmissions("setup " + ev)
			m.exploreSettle(&xrun{}, settleOpts{ctx: "setup", bag: true, noHold: true, noTick: true, pre: mon.preDeliver, post: mon.postDeliver, history: hist, maxIter: 400})
		}
		for i, ev := range sc.Events {
			f := strings.Fields(ev)
			mon.snapshotEmit()
			switch f[0] {
			case "twin":
				// a second node claiming the ID of f[1], started later, attached to f[3]
				m.idOf["twin"] = f[1]
				time.Sleep(1100 * time.Millisecond)
				m.start("twin")
				m.up("twin", f[3], 1)
			case "period":
				time.Sleep(m.consts.routeTime)
				synctest.Wait()
			default:
				m.applyEvent(ev, stopped)
			}
			mon.checkEmissions("event " + ev)
			r.steps++
			res := m.exploreSettle(r, settleOpts{canFireNext: i < len(sc.Events)-1, ctx: fmt.Sprintf("ev%d", i), bag: !sc.Pairs, faults: !sc.Pairs, noHold: true,
				pre: mon.preDeliver, post: mon.postDeliver, history: hist, maxIter: 400, pairs: sc.Pairs,
				pairDone: func(l1, l2 string) {
					mon.pre = c06Pre{}
					mon.checkEmissions("concurrent delivery of " + l1 + " and " + l2)
					mon.snapshotEmit()
				}})
			if res == "pruned" {
				break
			}
			if res == "limit" {
				out.violate("flood:no-termination", "scenario %s: flooding did not come to rest within 400 deliveries after %q", sc.Name, ev)
				break
			}
		}
		m.end()
	})
	return dedupViol(out.Viol)
}

func runC06(w *W) {
	tri := []string{"up a b 1", "up b c 1", "up a c 1"}
	chain := []string{"up a b 1", "up b c 1"}
	var scs []c06Scenario
	add := func(name string, base []string, extra []string, bound int) {
		if extra == nil {
			scs = append(scs, c06Scenario{Name: name, Events: base, Bound: bound})
			return
		}
		scs = append(scs, c06Scenario{Name: name, Setup: base, Events: extra, Bound: bound})
	}
	d := 1
	if w.Thorough() {
		d = 2
	}
	add("triangle bring-up", tri, nil, d)
	add("chain bring-up", chain, nil, d)
	add("triangle, link down", tri, []string{"down a b"}, d)
	add("triangle, link down and up again", tri, []string{"down a b", "up a b 1"}, d)
	add("triangle, restart c", tri, []string{"stop c", "restart c"}, d)
	add("chain, restart b", chain, []string{"stop b", "restart b"}, d)
	add("triangle, periodic update", tri, []string{"period"}, d)
	add("triangle, two periodic updates", tri, []string{"period", "period"}, d)
	add("triangle, twin of c at a", tri, []string{"twin c at a"}, d)
	add("chain, twin of c at a", chain, []string{"twin c at a"}, d)
	add("chain, twin of a at c", chain, []string{"twin a at c"}, d)
	add("chain, silent link then period", chain, []string{"silent a b", "period"}, d)
	// concurrent arrival of the same update over two neighbours (handlers of different sessions run in parallel)
	square := []string{"up a b 1", "up b c 1", "up c d 1", "up d a 1"}
	abcd := []string{"a", "b", "c", "d"}
	scs = append(scs,
		c06Scenario{Name: "square, link down (concurrent arrivals)", Setup: square, Events: []string{"down a b"}, Bound: 1, Pairs: true, Names: abcd},
		c06Scenario{Name: "square, periodic update (concurrent arrivals)", Setup: square, Events: []string{"period"}, Bound: 1, Pairs: true, Names: abcd},
		c06Scenario{Name: "square, twin of c at a (concurrent arrivals)", Setup: square, Events: []string{"twin c at a"}, Bound: 1, Pairs: true, Names: abcd},
		c06Scenario{Name: "triangle, restart c (concurrent arrivals)", Setup: tri, Events: []string{"stop c", "restart c"}, Bound: 1, Pairs: true},
	)
	for _, sc := range scs {
		sc := sc
		id := fmt.Sprintf("%s setup=%v events=%v d=%d", sc.Name, sc.Setup, sc.Events, sc.Bound)
		w.explorerCaseParts(id, sc.Bound, 2, func(r *xrun) []Violation { return runC06Once(w.T, sc, r) })
	}
	runC06ScriptedAll(w)
}

// ---- scripted origin: every sequence of updates about one origin, against a reference model -------------

type c06Upd struct {
	Epoch, Seq uint64
	ID         string
	Conns      map[string]float64
}

var c06Alphabet = []c06Upd{
	{1, 1, "u-e1s1", map[string]float64{"p": 1}},
	{1, 2, "u-e1s2", map[string]float64{"p": 1, "q": 1}},
	{1, 2, "u-e1s2-other-id", map[string]float64{"p": 2}}, // equal (epoch, seq), different content
	{2, 1, "u-e2s1", map[string]float64{"p": 3}},          // newer run, lower sequence
	{1, 9, "u-e1s9", map[string]float64{"p": 4}},          // older run, higher sequence
	{2, 2, "u-e2s2", map[string]float64{"p": 1}},
}

func runC06Scripted(t *testing.T, seq []int) CaseOut {
	var out CaseOut
	out.Nontrivial = len(seq) > 1
	bubble(t, func(t *testing.T) {
		m := newMesh(defaultConsts, "a", "b")
		m.logEmit = true
		m.up("a", "b", 1)
		m.settle()
		p := m.attach("a", "p")
		p.inject(mkRoute(wireRoute{NodeID: "p", UpdateID: "p-hello", UpdateEpoch: 5, UpdateSequence: 1, Connections: map[string]float64{"a": 1}, ForwardingNode: "p"}))
		synctest.Wait()
		m.settle()
		// reference model
		var acc *c06Upd
		seen := map[string]bool{}
		wantRelays := map[string]int{}
		for step, ai := range seq {
			u := c06Alphabet[ai]
			fresh := !seen[u.ID]
			newer := acc == nil || u.Epoch > acc.Epoch || (u.Epoch == acc.Epoch && u.Seq > acc.Seq)
			seen[u.ID] = true
			if fresh && newer {
				cp := u
				acc = &cp
				wantRelays[u.ID]++
			}
			p.inject(mkRoute(wireRoute{NodeID: "x", UpdateID: u.ID, UpdateEpoch: u.Epoch, UpdateSequence: u.Seq, Connections: u.Conns, ForwardingNode: "p"}))
			synctest.Wait()
			m.settle()
			st := m.nodes["a"].Status()
			got := st.KnownConnectionCosts["x"]
			vs := m.nodes["a"].VerifSnapshot()
			ki := vs.KnownNodes["x"]
			ctx := fmt.Sprintf("sequence %v step %d (update e%d #%d id %s)", seq, step, u.Epoch, u.Seq, u.ID)
			if acc != nil {
				if !reflect.DeepEqual(got, acc.Conns) {
					kind := "stale"
					if fresh && newer {
						kind = "genuine"
					}
					out.violate("know:picture-differs-from-reference:"+kind, "%s: a's picture of x is %v, the newest accepted update (e%d #%d) says %v", ctx, got, acc.Epoch, acc.Seq, acc.Conns)
				}
				if ki.Epoch != acc.Epoch || ki.Sequence != acc.Seq {
					out.violate("know:accepted-differs-from-reference", "%s: a accepted (e%d,#%d), reference (e%d,#%d)", ctx, ki.Epoch, ki.Sequence, acc.Epoch, acc.Seq)
				}
			}
		}
		// relays seen on a>b (delivered or still queued): each genuine update exactly once, nothing else
		gotRelays := map[string]int{}
		m.mu.Lock()
		for _, d := range m.emitted["a>b"] {
			if len(d) > 0 && d[0] == 1 {
				var e wireRoute
				if json.Unmarshal(d[1:], &e) == nil && e.NodeID == "x" {
					gotRelays[e.UpdateID]++
				}
			}
		}
		backToSender := 0
		for _, d := range m.emitted["a>p"] {
			if len(d) > 0 && d[0] == 1 {
				var e wireRoute
				if json.Unmarshal(d[1:], &e) == nil && e.NodeID == "x" {
					backToSender++
				}
			}
		}
		m.mu.Unlock()
		if !reflect.DeepEqual(gotRelays, wantRelays) && !(len(gotRelays) == 0 && len(wantRelays) == 0) {
			out.violate("flood:relays-differ-from-reference", "sequence %v: relays of x's updates to b: %v, reference %v", seq, gotRelays, wantRelays)
		}
		if backToSender > 0 {
			out.violate("flood:relayed-back-to-sender", "sequence %v: %d updates about x were sent back to the peer they came from", seq, backToSender)
		}
		out.Outcome = fmt.Sprintf("len=%d relays=%d", len(seq), len(wantRelays))
		m.end()
	})
	return out
}

func runC06ScriptedAll(w *W) {
	maxLen := 4
	if w.Thorough() {
		maxLen = 5
	}
	var rec func(p []int)
	rec = func(p []int) {
		if len(p) > 0 {
			q := append([]int{}, p...)
			w.Case(fmt.Sprintf("scripted origin sequence %v", q), func() CaseOut {
				o := runC06Scripted(w.T, q)
				if len(q) == 4 && q[0] == 1 && q[1] == 2 && q[2] == 4 && q[3] == 3 {
					o.Sample = map[string]any{"sequence": q, "alphabet": "0:(e1,#1) 1:(e1,#2) 2:(e1,#2,other id) 3:(e2,#1) 4:(e1,#9) 5:(e2,#2)", "outcome": o.Outcome}
				}
				return o
			})
		}
		if len(p) == maxLen {
			return
		}
		for i := range c06Alphabet {
			rec(append(append([]int{}, p...), i))
		}
	}
	rec(nil)
}

func init() {
	register(&PropSpec{
		ID:        "C06",
		Level:     "model_checking",
		Technique: "stateless deviation-bounded DFS with state-hash pruning over delivery orders, duplication, loss and replay of routing updates between real Netceptor nodes in a synctest bubble; invariants checked around every single delivery through a read-only snapshot of the accepted (epoch, sequence) table",
		Rule: "scenarios: triangle and 3-chain bring-up, link down / down+up, node restart (new epoch), periodic update, a later-started twin with the same ID (suspected-duplicate notices), silent link; links are bags (any in-flight update may be delivered next) and every in-flight update may be duplicated or dropped and each of the last 3 delivered updates of a link replayed; all schedules with <=d deviations (quick d=1, bring-up 2; thorough 2/3); on a square and a triangle additionally the concurrent delivery of two updates that reach the same node over two links (both are handed over before the node runs, selected log statements are yield points). " +
			"Monitors per delivery: accepted (epoch,seq) per origin never decreases (except duplicate hand-over); stale/equal/replayed/own updates change nothing and are not relayed; genuine updates are recorded and relayed exactly once to every other neighbour, never back to the sender; no knowledge about itself; flooding comes to rest. A case is one scenario; non-trivial = at least one choice point. " +
			"Second engine: every sequence (with repetition) of length <=4 (quick) / <=5 (thorough) over a 6-update alphabet about one origin (equal (epoch,seq) with another ID, newer run with lower sequence, older run with higher sequence) sent by a scripted peer, compared step by step with a reference model (lexicographic maximum of unseen updates): picture, accepted (epoch,seq) and relays to the other neighbour.",
		Assumptions: []string{"macro-step atomicity (one delivery is processed to quiescence before the next)", "a direct peer's own update that stops listing the receiver or disagrees on cost legitimately ends the session and is exempt from the no-change rule"},
		Run:         runC06,
		CaseTimeout: 60 * time.Second,
	})
}
