package harness

import (
	"bufio"
	"encoding/json"
	"fmt"
	"io"
	"net"
	"os"
	"os/exec"
	"path/filepath"
	"strings"
	"syscall"
	"time"
)

// Driver for the real receptor daemon (built from /repo with -tags verif by vcheck).

type daemon struct {
	dir   string
	sock  string
	cmd   *exec.Cmd
	logf  *os.File
	extra []string
	done  chan struct{}
}

func receptorBin() string {
	if b := os.Getenv("VERIF_RECEPTOR_BIN"); b != "" {
		return b
	}
	return filepath.Join(verifRoot(), ".cache", "bin", "receptor-verif")
}

var daemonWorkTypes = []string{
	"--work-command", "worktype=cat", "command=cat",
	"--work-command", "worktype=fail", "command=sh", "params=-c 'cat; exit 3'",
	"--work-command", "worktype=slow", "command=sh", "params=-c 'cat; sleep 2; echo end'",
	"--work-command", "worktype=long", "command=sh", "params=-c 'cat; sleep 30; echo end'",
	"--work-command", "worktype=ticker", "command=sh", "params=-c 'cat; for i in 1 2 3 4 5 6 7 8; do echo tick$i; sleep 0.5; done'",
	"--work-command", "worktype=chatty", "command=sh", "params=-c 'cat; for i in 1 2 3 4; do echo line$i; sleep 0.3; done'",
}

// startDaemon launches receptor on dir (data in dir/data, socket dir/sock) with the given environment additions.
func startDaemon(dir string, nodeID string, env []string, extraArgs ...string) (*daemon, error) {
	d := &daemon{dir: dir, sock: filepath.Join(dir, "sock"), done: make(chan struct{})}
	os.Remove(d.sock)
	os.Remove(d.sock + ".lock")
	// work types are registered before the control service opens its socket (options act in order)
	args := []string{"--node", "id=" + nodeID, "datadir=" + filepath.Join(dir, "data"), "--log-level", "level=error"}
	args = append(args, daemonWorkTypes...)
	args = append(args, "--control-service", "service=control", "filename="+d.sock)
	hasBackend := false
	for _, a := range extraArgs {
		if strings.Contains(a, "-listener") || strings.Contains(a, "-peer") {
			hasBackend = true
		}
	}
	if !hasBackend {
		args = append(args, "--local-only")
	}
	args = append(args, extraArgs...)
	cmd := exec.Command(receptorBin(), args...)
	cmd.Env = append(os.Environ(), env...)
	logf, err := os.OpenFile(filepath.Join(dir, "daemon.log"), os.O_APPEND|os.O_CREATE|os.O_WRONLY, 0o600)
	if err != nil {
		return nil, err
	}
	cmd.Stdout, cmd.Stderr = logf, logf
	cmd.SysProcAttr = &syscall.SysProcAttr{Pdeathsig: syscall.SIGKILL}
	if err := cmd.Start(); err != nil {
		return nil, err
	}
	d.cmd, d.logf = cmd, logf
	go func() { cmd.Wait(); close(d.done) }()
	dl := time.Now().Add(20 * time.Second)
	for time.Now().Before(dl) {
		select {
		case <-d.done:
			return d, fmt.Errorf("daemon exited during start-up: %s", d.logTail())
		default:
		}
		if c, err := net.Dial("unix", d.sock); err == nil {
			c.Close()
			return d, nil
		}
		time.Sleep(20 * time.Millisecond)
	}
	return d, fmt.Errorf("daemon socket did not appear: %s", d.logTail())
}

func (d *daemon) logTail() string {
	b, _ := os.ReadFile(filepath.Join(d.dir, "daemon.log"))
	if len(b) > 1500 {
		b = b[len(b)-1500:]
	}
	return string(b)
}

func (d *daemon) alive() bool {
	select {
	case <-d.done:
		return false
	default:
		return true
	}
}

// kill ends the daemon with SIGKILL (its detached runner processes survive, as in production).
func (d *daemon) kill() {
	if d.cmd != nil && d.cmd.Process != nil {
		d.cmd.Process.Kill()
		<-d.done
	}
	if d.logf != nil {
		d.logf.Close()
	}
}

type ctlConn struct {
	c net.Conn
	r *bufio.Reader
}

func (d *daemon) dial(timeout time.Duration) (*ctlConn, error) {
	c, err := net.DialTimeout("unix", d.sock, timeout)
	if err != nil {
		return nil, err
	}
	cc := &ctlConn{c: c, r: bufio.NewReader(c)}
	c.SetDeadline(time.Now().Add(timeout))
	if _, err := cc.r.ReadString('\n'); err != nil {
		c.Close()
		return nil, fmt.Errorf("no greeting: %v", err)
	}
	return cc, nil
}

// ask sends one command line on a fresh connection and returns the first reply line.
func (d *daemon) ask(line string, timeout time.Duration) (string, error) {
	cc, err := d.dial(timeout)
	if err != nil {
		return "", err
	}
	defer cc.c.Close()
	cc.c.SetDeadline(time.Now().Add(timeout))
	if _, err := cc.c.Write([]byte(line + "\n")); err != nil {
		return "", err
	}
	l, err := cc.r.ReadString('\n')
	return strings.TrimRight(l, "\n"), err
}

type submitResult struct {
	ID    string // acknowledged unit ID ("" if none)
	Final string // reply after the input was taken
	Err   error
}

// submit uploads stdin for a new unit; the ID counts as acknowledged as soon as the first line names it.
func (d *daemon) submit(node, workType string, stdin []byte, timeout time.Duration) submitResult {
	var r submitResult
	cc, err := d.dial(timeout)
	if err != nil {
		r.Err = err
		return r
	}
	defer cc.c.Close()
	cc.c.SetDeadline(time.Now().Add(timeout))
	req, _ := json.Marshal(map[string]string{"command": "work", "subcommand": "submit", "node": node, "worktype": workType})
	if _, err := cc.c.Write(append(req, '\n')); err != nil {
		r.Err = err
		return r
	}
	l, err := cc.r.ReadString('\n')
	if err != nil {
		r.Err = err
		return r
	}
	const p = "Work unit created with ID "
	if i := strings.Index(l, p); i >= 0 {
		rest := l[i+len(p):]
		if j := strings.Index(rest, "."); j > 0 {
			r.ID = rest[:j]
		}
	} else {
		r.Final = strings.TrimRight(l, "\n")
		return r
	}
	if _, err := cc.c.Write(stdin); err != nil {
		r.Err = err
		return r
	}
	if uc, ok := cc.c.(*net.UnixConn); ok {
		uc.CloseWrite()
	}
	l, err = cc.r.ReadString('\n')
	r.Final = strings.TrimRight(l, "\n")
	if err != nil && err != io.EOF {
		r.Err = err
	}
	return r
}

type unitStatus struct {
	State      int
	Detail     string
	StdoutSize int64
	WorkType   string
	StateName  string
	ExtraData  interface{}
}

func (d *daemon) status(id string, timeout time.Duration) (*unitStatus, string, error) {
	l, err := d.ask("work status "+id, timeout)
	if err != nil {
		return nil, l, err
	}
	if !strings.HasPrefix(l, "{") {
		return nil, l, nil
	}
	var st unitStatus
	if err := json.Unmarshal([]byte(l), &st); err != nil {
		return nil, l, err
	}
	return &st, l, nil
}

func (d *daemon) list(timeout time.Duration) (map[string]unitStatus, string, error) {
	l, err := d.ask("work list", timeout)
	if err != nil {
		return nil, l, err
	}
	m := map[string]unitStatus{}
	if err := json.Unmarshal([]byte(l), &m); err != nil {
		return nil, l, err
	}
	return m, l, nil
}

// results fetches the result stream from startPos until the daemon closes it (or the timeout).
func (d *daemon) results(id string, startPos int64, timeout time.Duration) (hdr string, data []byte, err error) {
	cc, err := d.dial(timeout)
	if err != nil {
		return "", nil, err
	}
	defer cc.c.Close()
	cc.c.SetDeadline(time.Now().Add(timeout))
	fmt.Fprintf(cc.c, "work results %s %d\n", id, startPos)
	hdr, err = cc.r.ReadString('\n')
	if err != nil {
		return hdr, nil, err
	}
	hdr = strings.TrimRight(hdr, "\n")
	if !strings.HasPrefix(hdr, "Streaming results") {
		return hdr, nil, nil
	}
	data, err = io.ReadAll(cc.r)
	return hdr, data, err
}

// waitState polls until the unit reports one of the states (or the timeout).
func (d *daemon) waitState(id string, timeout time.Duration, states ...int) (*unitStatus, error) {
	dl := time.Now().Add(timeout)
	var last *unitStatus
	for time.Now().Before(dl) {
		st, _, err := d.status(id, 5*time.Second)
		if err == nil && st != nil {
			last = st
			for _, s := range states {
				if st.State == s {
					return st, nil
				}
			}
		}
		time.Sleep(100 * time.Millisecond)
	}
	return last, fmt.Errorf("state %v not reached within %v", states, timeout)
}

// killStrayRunners ends command runners (and their commands) that refer to dir.
func killStrayRunners(dir string) {
	out, _ := exec.Command("pgrep", "-f", "unitdir="+dir).Output()
	for _, f := range strings.Fields(string(out)) {
		var pid int
		fmt.Sscan(f, &pid)
		if pid > 1 {
			syscall.Kill(pid, syscall.SIGKILL)
		}
	}
	out, _ = exec.Command("pgrep", "-f", "sleep 30").Output()
	_ = out
}

func readObsLog(path string) [][]string {
	b, err := os.ReadFile(path)
	if err != nil {
		return nil
	}
	var recs [][]string
	for _, l := range strings.Split(string(b), "\n") {
		if l == "" {
			continue
		}
		// <nanos> <role> <pid> <kind> <tab separated kv>
		f := strings.SplitN(l, " ", 5)
		if len(f) < 5 {
			continue
		}
		recs = append(recs, append(f[:4], strings.Split(f[4], "\t")...))
	}
	return recs
}

// startDaemonListening starts a daemon with a TCP backend listener on a free port and makes sure it is this
// daemon that listens there (another process may grab a port between the moment it was found free and the bind).
func startDaemonListening(dir, nodeID string, env []string) (*daemon, int, error) {
	var lastErr error
	for attempt := 0; attempt < 4; attempt++ {
		port := freePort()
		d, err := startDaemon(dir, nodeID, env, "--tcp-listener", fmt.Sprintf("port=%d", port), "bindaddr=127.0.0.1")
		if err != nil {
			lastErr = err
			if d != nil {
				d.kill()
			}
			continue
		}
		ok := false
		for dl := time.Now().Add(8 * time.Second); time.Now().Before(dl) && d.alive(); {
			c, err := net.DialTimeout("tcp", fmt.Sprintf("127.0.0.1:%d", port), time.Second)
			if err == nil {
				c.Close()
				ok = true
				break
			}
			time.Sleep(30 * time.Millisecond)
		}
		if ok {
			// the port may be answered by somebody else's listener while our daemon is about to give up on its bind
			time.Sleep(250 * time.Millisecond)
		}
		if ok && d.alive() && !strings.Contains(d.logTail(), "address already in use") {
			return d, port, nil
		}
		lastErr = fmt.Errorf("daemon does not listen on port %d: %s", port, trunc(d.logTail(), 300))
		d.kill()
	}
	return nil, 0, lastErr
}
