package harness

import (
	"encoding/json"
	"fmt"
	"os"
	"path/filepath"
	"sort"
	"strings"
	"sync"
	"time"
)

// C04 — acknowledged work units survive crash/restart with identity and outcome.
//
// crashx: the real daemon (and its command-runner child) is killed (SIGKILL to itself) at the k-th hook
// point it reaches, for every k of a history; then it is started again on the same data directory.

type c04Args struct {
	History string
	Role    string // daemon | runner
	K       int    // crash at the K-th point of a process of that role (0: counting run)
	Second  int    // >0: crash the restarted daemon again at its Second-th point, then start a third time
	Gate    string // history R1: n2 is parked at this hook point of its submission handler while n1 is killed
}

type ackUnit struct {
	ID        string
	WorkType  string
	Input     string
	FinalSeen *unitStatus // final state the submitter had seen before the crash
	ReleaseRequested bool // the submitter has asked for the unit's release (answered or not): it may be gone after a crash
}

type c04Model struct {
	mu    sync.Mutex
	units []*ackUnit
}

func (m *c04Model) ack(id, wt, input string) *ackUnit {
	m.mu.Lock()
	defer m.mu.Unlock()
	u := &ackUnit{ID: id, WorkType: wt, Input: input}
	m.units = append(m.units, u)
	return u
}

// runHistory drives the daemon through a history until it is done or the daemon dies.
func runHistory(name string, d *daemon, m *c04Model) {
	sub := func(wt, input string) *ackUnit {
		r := d.submit("n1", wt, []byte(input), 10*time.Second)
		if r.ID == "" {
			return nil
		}
		return m.ack(r.ID, wt, input)
	}
	waitFinal := func(u *ackUnit, timeout time.Duration) {
		if u == nil {
			return
		}
		dl := time.Now().Add(timeout)
		for time.Now().Before(dl) && d.alive() {
			st, _, err := d.status(u.ID, 3*time.Second)
			if err == nil && st != nil && (st.State == 2 || st.State == 3) {
				m.mu.Lock()
				u.FinalSeen = st
				m.mu.Unlock()
				return
			}
			time.Sleep(60 * time.Millisecond)
		}
	}
	switch name {
	case "H1": // one local unit to completion, then a look at it
		u := sub("cat", "hello world\n")
		waitFinal(u, 8*time.Second)
		if u != nil && d.alive() {
			d.results(u.ID, 0, 3*time.Second)
		}
	case "H2": // two submissions, the second while the first runs
		u1 := sub("slow", "first\n")
		u2 := sub("cat", "second\n")
		waitFinal(u2, 8*time.Second)
		waitFinal(u1, 8*time.Second)
	case "H3": // a unit that is still running when the daemon dies
		u := sub("slow", "running\n")
		if u != nil {
			for i := 0; i < 8 && d.alive(); i++ {
				d.status(u.ID, 2*time.Second)
				time.Sleep(100 * time.Millisecond)
			}
		}
		waitFinal(u, 8*time.Second)
	case "H5": // failing unit plus release of a finished one
		u1 := sub("fail", "x\n")
		waitFinal(u1, 8*time.Second)
		u2 := sub("cat", "to be released\n")
		waitFinal(u2, 8*time.Second)
		if u2 != nil && d.alive() {
			m.mu.Lock()
			u2.ReleaseRequested = true
			m.mu.Unlock()
			r, _ := d.ask("work release "+u2.ID, 5*time.Second)
			if strings.Contains(r, "released") {
				m.mu.Lock()
				for i, u := range m.units {
					if u == u2 {
						m.units = append(m.units[:i], m.units[i+1:]...)
					}
				}
				m.mu.Unlock()
			}
		}
	}
}

func pointsOf(logPath, role string) []string {
	b, _ := os.ReadFile(logPath)
	var pts []string
	for _, l := range strings.Split(string(b), "\n") {
		f := strings.Fields(l)
		if len(f) >= 4 && f[0] == role && f[3] != "CRASH-HERE" {
			pts = append(pts, f[3])
		}
	}
	return pts
}

func crashPointOf(logPath string) string {
	b, _ := os.ReadFile(logPath)
	for _, l := range strings.Split(string(b), "\n") {
		f := strings.Fields(l)
		if len(f) >= 5 && f[3] == "CRASH-HERE" {
			return f[0] + "." + f[4]
		}
	}
	return ""
}

func execC04(w *W, raw json.RawMessage) CaseOut {
	var a c04Args
	json.Unmarshal(raw, &a)
	if strings.HasPrefix(a.History, "R") {
		return execC04Remote(a)
	}
	if a.History == "G3" {
		return execC04RestartGate(a)
	}
	if a.History == "G4" {
		return execC04RunnerGate(a)
	}
	var out CaseOut
	out.Nontrivial = a.K > 0
	dir, err := os.MkdirTemp(scratchDir(), "c04-")
	if err != nil {
		out.violate("harness:c04-tmp", "%v", err)
		return out
	}
	defer os.RemoveAll(dir)
	defer killStrayRunners(dir)
	plog := filepath.Join(dir, "points.log")
	env := []string{"VERIF_POINT_LOG=" + plog}
	if a.K > 0 {
		env = append(env, fmt.Sprintf("VERIF_CRASH=%s:%d", a.Role, a.K))
	}
	d, err := startDaemon(dir, "n1", env)
	if err != nil && a.K == 0 {
		out.violate("harness:c04-daemon", "%v", err)
		if d != nil {
			d.kill()
		}
		return out
	}
	m := &c04Model{}
	if d != nil && d.alive() {
		runHistory(a.History, d, m)
	}
	if a.K == 0 {
		// counting run: report the points of both roles
		d.kill()
		time.Sleep(300 * time.Millisecond)
		res := map[string]any{"daemon": pointsOf(plog, "daemon"), "runner": pointsOf(plog, "runner")}
		out.Extra, _ = json.Marshal(res)
		out.Outcome = "count"
		return out
	}
	crashed := !d.alive()
	at := crashPointOf(plog)
	if at == "" {
		at = a.Role + ".none"
	}
	d.kill() // the daemon dies in every execution; with a runner crash point it dies after the history
	time.Sleep(150 * time.Millisecond)
	ctx := fmt.Sprintf("history %s crash %s:%d (%s)", a.History, a.Role, a.K, at)
	// ---- restart on the same data directory
	env2 := []string{}
	if a.Second > 0 {
		env2 = append(env2, fmt.Sprintf("VERIF_CRASH=daemon:%d", a.Second), "VERIF_POINT_LOG="+filepath.Join(dir, "points2.log"))
	}
	d2, err := startDaemon(dir, "n1", env2)
	if a.Second > 0 {
		// let the recovery run into its crash point (or finish), then start a third time
		time.Sleep(1500 * time.Millisecond)
		if d2 != nil {
			d2.kill()
		}
		if p2 := crashPointOf(filepath.Join(dir, "points2.log")); p2 != "" {
			at += "+recovery:" + p2
			ctx += " then " + p2
		}
		d2, err = startDaemon(dir, "n1", nil)
	}
	if err != nil {
		out.violate("crash:daemon-does-not-restart:at="+at, "%s: %v", ctx, err)
		if d2 != nil {
			d2.kill()
		}
		return out
	}
	defer d2.kill()
	time.Sleep(1300 * time.Millisecond)
	list, rawList, err := d2.list(30 * time.Second)
	if err != nil {
		out.violate("crash:no-answer:list:at="+at, "%s: work list does not answer: %v", ctx, err)
	}
	m.mu.Lock()
	units := append([]*ackUnit(nil), m.units...)
	m.mu.Unlock()
	for _, u := range units {
		st, ok := list[u.ID]
		if !ok && err == nil && u.ReleaseRequested {
			out.count("release_took_effect_before_the_crash", 1)
			continue
		}
		if !ok && err == nil {
			out.violate("crash:acknowledged-unit-missing:at="+at, "%s: unit %s (%s) was acknowledged but is not listed after the restart: %s", ctx, u.ID, u.WorkType, trunc(rawList, 200))
			continue
		}
		if ok && st.WorkType != u.WorkType {
			out.violate("crash:work-type-lost:at="+at, "%s: unit %s was submitted as %q, after the restart it is listed with work type %q (state %d, detail %q)", ctx, u.ID, u.WorkType, st.WorkType, st.State, st.Detail)
		}
		// every status query answers
		s1, raw1, e1 := d2.status(u.ID, 30*time.Second)
		if e1 != nil || s1 == nil {
			out.violate("crash:no-answer:status:at="+at, "%s: work status %s: %q %v", ctx, u.ID, trunc(raw1, 100), e1)
			continue
		}
		if u.FinalSeen != nil {
			if s1.State != u.FinalSeen.State || s1.StdoutSize != u.FinalSeen.StdoutSize {
				out.violate("crash:final-state-changed:at="+at, "%s: unit %s had been reported %s with %d bytes; after the restart it is state %d (%s) with %d bytes", ctx, u.ID, u.FinalSeen.StateName, u.FinalSeen.StdoutSize, s1.State, s1.Detail, s1.StdoutSize)
			} else {
				hdr, data, rerr := d2.results(u.ID, 0, 20*time.Second)
				want := u.Input
				if u.WorkType == "slow" {
					want += "end\n"
				}
				if !strings.HasPrefix(hdr, "Streaming") || string(data) != want {
					out.violate("crash:output-lost:at="+at, "%s: unit %s finished with output %q; after the restart results give %q / %q (%v)", ctx, u.ID, want, hdr, trunc(string(data), 60), rerr)
				}
			}
			continue
		}
		if a.Role == "runner" {
			continue // a dead runner is only checked for listing and answering
		}
		// not seen finished: a running command is followed to completion, a unit that never started fails
		fin, werr := d2.waitState(u.ID, 25*time.Second, 2, 3, 4)
		if werr != nil {
			stt := -1
			det := ""
			if fin != nil {
				stt, det = fin.State, fin.Detail
			}
			kind := "stuck-running"
			if stt == 0 {
				kind = "stuck-pending"
			}
			out.violate("crash:"+kind+":at="+at, "%s: unit %s never reaches a final state after the restart (state %d, %q)", ctx, u.ID, stt, det)
		}
	}
	// A kill between Truncate and the write of a status rewrite leaves an empty record; whatever symptom
	// follows (work type lost, final state changed, unit stuck) is the same failing call site.
	if strings.Contains(at, ".truncated") {
		site := at
		for _, part := range strings.Split(strings.ReplaceAll(at, "+recovery:", " "), " ") {
			if strings.HasSuffix(part, ".truncated") {
				site = part
			}
		}
		for i := range out.Viol {
			if strings.HasPrefix(out.Viol[i].Key, "crash:") {
				out.Viol[i].Msg = "[" + out.Viol[i].Key + "] " + out.Viol[i].Msg
				out.Viol[i].Key = "crash:record-empty-after-kill-between-truncate-and-write:at=" + site
			}
		}
	}
	out.count("acknowledged_units_checked", len(units))
	if crashed {
		out.count("daemon_died_at_point", 1)
	}
	out.Outcome = fmt.Sprintf("%s %s units=%d", a.History, a.Role, len(units))
	out.Sample = map[string]any{"history": a.History, "crash": fmt.Sprintf("%s:%d", a.Role, a.K), "at": at, "acknowledged": len(units)}
	return out
}

// execC04RestartGate: a command is still running when the daemon is killed (from outside); the restarted
// daemon is parked at a hook point of its recovery (gate) until the runner has written the final record,
// then released: the unit must still be followed to completion.
func execC04RestartGate(a c04Args) CaseOut {
	var out CaseOut
	out.Nontrivial = true
	dir, err := os.MkdirTemp(scratchDir(), "c04g-")
	if err != nil {
		out.violate("harness:c04-tmp", "%v", err)
		return out
	}
	defer os.RemoveAll(dir)
	defer killStrayRunners(dir)
	d, err := startDaemon(dir, "n1", nil)
	if err != nil {
		out.violate("harness:c04-daemon", "%v", err)
		if d != nil {
			d.kill()
		}
		return out
	}
	sub := d.submit("n1", "slow", []byte("running\n"), 10*time.Second)
	if sub.ID == "" {
		d.kill()
		out.violate("harness:c04-submit", "%+v", sub)
		return out
	}
	id := sub.ID
	d.waitState(id, 10*time.Second, 1)
	d.kill()
	gates := filepath.Join(dir, "gates")
	os.MkdirAll(gates, 0o700)
	point, hit := a.Gate, 1
	if i := strings.Index(a.Gate, "#"); i > 0 {
		point = a.Gate[:i]
		fmt.Sscan(a.Gate[i+1:], &hit)
	}
	os.WriteFile(filepath.Join(gates, "daemon."+point+".wait"), nil, 0o600)
	ctx := fmt.Sprintf("history G3 (slow unit running, daemon killed, recovery parked at %s until the runner has finished)", a.Gate)
	at := "recovery@" + a.Gate
	started := make(chan *daemon, 1)
	var startErr error
	go func() {
		d2, err := startDaemon(dir, "n1", []string{"VERIF_GATE_DIR=" + gates})
		startErr = err
		started <- d2
	}()
	reached := waitArrivals(dir, c13Gate{Role: "daemon", Point: point}, hit, 15*time.Second)
	if !reached {
		out.count("gate_not_reached", 1)
	}
	// the runner finishes meanwhile
	recPath := filepath.Join(dir, "data", "n1", id, "status")
	dl := time.Now().Add(15 * time.Second)
	for time.Now().Before(dl) {
		b, _ := os.ReadFile(recPath)
		var r struct{ State int }
		if json.Unmarshal(b, &r) == nil && r.State >= 2 {
			break
		}
		time.Sleep(50 * time.Millisecond)
	}
	time.Sleep(100 * time.Millisecond)
	os.WriteFile(filepath.Join(gates, "daemon."+point+".go"), nil, 0o600)
	d2 := <-started
	if startErr != nil || d2 == nil {
		out.violate("crash:daemon-does-not-restart:at="+at, "%s: %v", ctx, startErr)
		if d2 != nil {
			d2.kill()
		}
		return out
	}
	defer d2.kill()
	fin, werr := d2.waitState(id, 25*time.Second, 2, 3, 4)
	if werr != nil {
		stt, det := -1, ""
		if fin != nil {
			stt, det = fin.State, fin.Detail
		}
		b, _ := os.ReadFile(recPath)
		out.violate("crash:stuck-running:at="+at, "%s: unit %s never reaches a final state after the restart (reported state %d, %q) although its record on disk says %s", ctx, id, stt, det, trunc(string(b), 120))
	} else if fin.State == 2 {
		hdr, data, rerr := d2.results(id, 0, 20*time.Second)
		if !strings.HasPrefix(hdr, "Streaming") || string(data) != "running\nend\n" {
			out.violate("crash:output-lost:at="+at, "%s: results give %q / %q (%v)", ctx, hdr, trunc(string(data), 60), rerr)
		}
	}
	out.Outcome = fmt.Sprintf("G3 gate=%s reached=%v", a.Gate, reached)
	out.count("acknowledged_units_checked", 1)
	return out
}

// execC04RunnerGate: the daemon dies right after it has spawned the runner: the runner is parked at a hook
// point (its record still says Pending, the command is running), the daemon is killed and restarted, then
// the runner goes on. The command was running at the crash: it is followed to completion, and what the
// node reports in the end is what the record on disk says.
func execC04RunnerGate(a c04Args) CaseOut {
	var out CaseOut
	out.Nontrivial = true
	dir, err := os.MkdirTemp(scratchDir(), "c04h-")
	if err != nil {
		out.violate("harness:c04-tmp", "%v", err)
		return out
	}
	defer os.RemoveAll(dir)
	defer killStrayRunners(dir)
	gates := filepath.Join(dir, "gates")
	os.MkdirAll(gates, 0o700)
	os.WriteFile(filepath.Join(gates, "runner."+a.Gate+".wait"), nil, 0o600)
	d, err := startDaemon(dir, "n1", []string{"VERIF_GATE_DIR=" + gates})
	if err != nil {
		out.violate("harness:c04-daemon", "%v", err)
		if d != nil {
			d.kill()
		}
		return out
	}
	sub := d.submit("n1", "slow", []byte("running\n"), 10*time.Second)
	if sub.ID == "" {
		d.kill()
		out.violate("harness:c04-submit", "%+v", sub)
		return out
	}
	id := sub.ID
	reached := waitFile(filepath.Join(gates, "runner."+a.Gate+".arrived"), 15*time.Second)
	if !reached {
		out.count("gate_not_reached", 1)
	}
	d.kill()
	ctx := fmt.Sprintf("history G4 (daemon killed while the runner of a slow unit is parked at %s, restarted, then the runner goes on)", a.Gate)
	at := fmt.Sprintf("runner@%s+%dms", a.Gate, a.Second)
	// the restarted daemon is parked where its recovery starts to monitor the unit, so that the moment is known;
	// it is released there, and the runner goes on a.Second ms later
	os.WriteFile(filepath.Join(gates, "daemon.monitor.start.wait"), nil, 0o600)
	startedCh := make(chan *daemon, 1)
	var startErr error
	go func() {
		dd, err := startDaemon(dir, "n1", []string{"VERIF_GATE_DIR=" + gates})
		startErr = err
		startedCh <- dd
	}()
	if !waitFile(filepath.Join(gates, "daemon.monitor.start.arrived"), 20*time.Second) {
		out.count("gate_not_reached", 1)
	}
	tStart := time.Now() // the recovery's monitor starts now
	os.WriteFile(filepath.Join(gates, "daemon.monitor.start.go"), nil, 0o600)
	time.Sleep(time.Duration(a.Second) * time.Millisecond)
	os.WriteFile(filepath.Join(gates, "runner."+a.Gate+".go"), nil, 0o600)
	d2 := <-startedCh
	if startErr != nil || d2 == nil {
		out.violate("crash:daemon-does-not-restart:at="+at, "%s: %v", ctx, startErr)
		if d2 != nil {
			d2.kill()
		}
		return out
	}
	defer d2.kill()
	// the runner ends on its own: wait for its final record on disk
	recPath := filepath.Join(dir, "data", "n1", id, "status")
	var disk struct {
		State      int
		StdoutSize int64
	}
	// when did the runner's next rewrite (Running) land, counted from the start of the recovery?
	firstRewrite := time.Duration(-1)
	for dl := time.Now().Add(5 * time.Second); time.Now().Before(dl); {
		b, _ := os.ReadFile(recPath)
		if json.Unmarshal(b, &disk) == nil && disk.State >= 1 && disk.State != 3 {
			firstRewrite = time.Since(tStart)
			break
		}
		time.Sleep(10 * time.Millisecond)
	}
	dl := time.Now().Add(20 * time.Second)
	for time.Now().Before(dl) {
		b, _ := os.ReadFile(recPath)
		if json.Unmarshal(b, &disk) == nil && disk.State >= 2 {
			break
		}
		time.Sleep(100 * time.Millisecond)
	}
	time.Sleep(2500 * time.Millisecond)
	b, _ := os.ReadFile(recPath)
	json.Unmarshal(b, &disk)
	st, raw, serr := d2.status(id, 20*time.Second)
	if serr != nil || st == nil {
		out.violate("crash:no-answer:status:at="+at, "%s: %q %v", ctx, trunc(raw, 100), serr)
		return out
	}
	if a.Second < 500 && (firstRewrite < 0 || firstRewrite > 900*time.Millisecond) {
		// the machine was too slow for the short variant: the runner's rewrite did not land within the
		// monitor's first second for sure, so this execution says nothing (the long variant covers that)
		out.count("timing_not_achieved", 1)
		out.Outcome = "G4 timing-not-achieved"
		return out
	}
	if disk.State == 2 {
		if st.State != 2 || st.StdoutSize != disk.StdoutSize {
			out.violate("crash:running-command-not-followed:at="+at, "%s: the command was running at the crash and completed (record on disk: state %d, %d bytes), but the node reports state %d (%q) with %d bytes", ctx, disk.State, disk.StdoutSize, st.State, st.Detail, st.StdoutSize)
		} else {
			hdr, data, rerr := d2.results(id, 0, 20*time.Second)
			if !strings.HasPrefix(hdr, "Streaming") || string(data) != "running\nend\n" {
				out.violate("crash:output-lost:at="+at, "%s: results give %q / %q (%v)", ctx, hdr, trunc(string(data), 60), rerr)
			}
		}
	} else {
		out.count("runner_did_not_succeed", 1)
	}
	out.Outcome = fmt.Sprintf("G4 gate=%s reached=%v disk=%d reported=%d", a.Gate, reached, disk.State, st.State)
	out.count("acknowledged_units_checked", 1)
	return out
}

func coordC04(c *Coord) {
	hist := []string{"H1", "H2", "R1"}
	if c.Thorough() {
		hist = []string{"H1", "H2", "H3", "H5", "R1"}
	}
	p := c.newPool()
	defer p.close()
	var wg sync.WaitGroup
	type job struct{ a c04Args }
	var jobs []c04Args
	pointNames := map[string]bool{}
	for _, h := range hist {
		r := p.exec(c04Args{History: h})
		var cnt map[string][]string
		json.Unmarshal(r.Out.Extra, &cnt)
		if len(cnt["daemon"]) == 0 {
			c.infra("counting run of %s found no daemon hook points: %+v", h, r.Out)
			continue
		}
		c.note("history %s: %d daemon points, %d runner points", h, len(cnt["daemon"]), len(cnt["runner"]))
		for _, role := range []string{"daemon", "runner"} {
			for _, pn := range cnt[role] {
				pointNames[role+"."+pn] = true
			}
		}
		// the counting run is one sample of the history; timing moves the number of points a little,
		// so go a few positions beyond it (an execution whose k is never reached simply has no crash)
		for k := 1; k <= len(cnt["daemon"])+3; k++ {
			jobs = append(jobs, c04Args{History: h, Role: "daemon", K: k})
		}
		if h == "R1" {
			for _, g := range []string{"alloc.saved", "submit.stdin_created", "submit.stdin_closed", "submit.before_start"} {
				jobs = append(jobs, c04Args{History: h, Role: "daemon", Gate: g})
			}
			continue
		}
		// runner points: per runner process; the longest runner of the history bounds k
		maxRunner := 0
		per := map[string]int{}
		_ = per
		maxRunner = len(cnt["runner"])
		if h == "H2" || h == "H5" {
			maxRunner = maxRunner/2 + 4
		}
		for k := 1; k <= maxRunner+2; k++ {
			jobs = append(jobs, c04Args{History: h, Role: "runner", K: k})
		}
		if c.Thorough() && h == "H1" {
			for k := 1; k <= len(cnt["daemon"]); k += 3 {
				for s := 1; s <= 12; s += 2 {
					jobs = append(jobs, c04Args{History: h, Role: "daemon", K: k, Second: s})
				}
			}
		}
	}
	for _, g := range []string{"load.read", "load.read#2", "load.read#3", "lock.released#3", "lock.released#4", "monitor.start"} {
		jobs = append(jobs, c04Args{History: "G3", Role: "daemon", Gate: g})
	}
	for _, g := range []string{"runner.started"} {
		// (Second = delay in ms between the end of the recovery and the runner going on)
		jobs = append(jobs, c04Args{History: "G4", Role: "runner", Gate: g, Second: 0})
		jobs = append(jobs, c04Args{History: "G4", Role: "runner", Gate: g, Second: 1500})
	}
	var names []string
	for n := range pointNames {
		names = append(names, n)
	}
	sort.Strings(names)
	c.setCov("hook_points_seen", names)
	sem := make(chan struct{}, p.size())
	for _, j := range jobs {
		if c.stopped() {
			break
		}
		j := j
		wg.Add(1)
		sem <- struct{}{}
		go func() {
			defer wg.Done()
			defer func() { <-sem }()
			r := p.exec(j)
			raw, _ := json.Marshal(j)
			c.record(fmt.Sprintf("%+v", j), raw, r.Out)
		}()
	}
	wg.Wait()
}

func init() {
	register(&PropSpec{
		ID:        "C04",
		Level:     "fault_enumeration",
		Technique: "crash-point enumeration on the real daemon and its command-runner: the process kills itself (SIGKILL) at the k-th hook point it reaches, for every k of each history; restart on the same data directory; acknowledged units compared with the submitter's model",
		Rule: "histories: H1 one local unit to completion + results; H2 two submissions, the second while the first runs (thorough: H3 unit still running at the crash, H5 failing unit + release of a finished unit); R1 a unit submitted by n1 to a second real daemon n2 over a TCP link, followed to completion, with n1 killed at each of its points and, in addition, from outside while n2 is parked at {unit allocated, stdin file created, input received, before start} of its submission handler; G3 a running command whose daemon is killed and whose restarted daemon is parked at {1st..3rd record read, 3rd/4th lock release, start of the status monitor} of its recovery until the runner has written the final record; G4 the daemon killed and restarted while the runner is parked right after it started the command (record still Pending), then released at the moment the recovery starts to monitor the unit / 1.5 s later; for each history every daemon crash point k=1..n+3 (n from a counting run) and every runner crash point; thorough: H1 with a second crash at the 1st..12th point of the recovery. " +
			"A case is one (history, role, k); all are distinct; non-trivial = a crash point was selected. Oracle after restart: every acknowledged unit listed with its work type; a unit seen finished keeps state and size and its full output can be fetched; other units reach a final state within 25 s (daemon crashes); every query answers; remote work: listed as remote work for the same node and type, a remote unit ID named by the record at the crash (or, once n2 has received the input, created by n2) is the one named after the restart; G4: what the node reports in the end equals the runner's final record on disk.",
		Assumptions: []string{"process kill between two hook points (file-system steps), not power loss with torn writes", "real time: a query counts as unanswered after 30 s", "a runner that died is checked for listing and answering only"},
		Exec:        execC04,
		Coord:       coordC04,
		CaseTimeout: 400 * time.Second,
		NoFailFast:  true,
	})
}
