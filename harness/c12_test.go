package harness

import (
	"fmt"
	"regexp"
	"sort"
	"strings"

	"github.com/ansible/receptor/pkg/netceptor"
)

// C12 — firewall: first matching rule decides; uninterpretable rule sets are refused.
//
// Level 1 (this file): ParseFirewallRules + the resulting rule functions against a reference
// interpreter written from the property statement. Level 2 (c12mesh_test.go): the same rule lists
// installed on real nodes of a mesh, packets observed at origin, transit and destination.

type fwPacket struct{ FromNode, ToNode, FromService, ToService string }

var fwFields = []string{"fromnode", "tonode", "fromservice", "toservice"}
var fwBase = map[string]string{"fromnode": "n1", "tonode": "n2", "fromservice": "s1", "toservice": "s2"}

func fwPackets() []fwPacket {
	var ps []fwPacket
	for i := 0; i < 16; i++ {
		v := func(bit int, base string) string {
			if i&(1<<bit) != 0 {
				return base + "x"
			}
			return base
		}
		ps = append(ps, fwPacket{v(0, "n1"), v(1, "n2"), v(2, "s1"), v(3, "s2")})
	}
	return ps
}

func (p fwPacket) field(f string) string {
	switch f {
	case "fromnode":
		return p.FromNode
	case "tonode":
		return p.ToNode
	case "fromservice":
		return p.FromService
	default:
		return p.ToService
	}
}

// pattern kinds for a field whose base value is v
var fwPatKinds = []string{"absent", "lit", "litmiss", "re", "rewide", "realt", "badopen", "badslash", "badnoend", "reempty"}

func fwPattern(kind, v string) string {
	switch kind {
	case "lit":
		return v
	case "litmiss":
		return v + "zz"
	case "re":
		return "/" + v + "/"
	case "rewide":
		return "/" + v + ".*/"
	case "realt":
		return "/" + v + "|zz/" // must match exactly v or zz — not "vx"
	case "badopen":
		return "/[/"
	case "badslash":
		return "/"
	case "badnoend":
		return "/" + v
	case "reempty":
		return "//"
	}
	return ""
}

// ---- reference interpreter (from the statement) ----------------------------------------------

type refRule struct {
	action string // accept|reject|drop
	conds  map[string]func(string) bool
}

// refParse returns ok=false when the rule cannot be interpreted and must be refused.
func refParse(rule map[interface{}]interface{}) (refRule, bool) {
	r := refRule{conds: map[string]func(string) bool{}}
	seen := map[string]bool{}
	for k, v := range rule {
		ks, ok := k.(string)
		if !ok {
			return r, false
		}
		vs, ok := v.(string)
		if !ok {
			return r, false
		}
		lk := strings.ToLower(ks)
		if seen[lk] {
			return r, false // ambiguous duplicate; not generated
		}
		seen[lk] = true
		switch lk {
		case "action":
			r.action = strings.ToLower(vs)
		case "fromnode", "tonode", "fromservice", "toservice":
			if vs == "" {
				continue // field not given
			}
			if strings.HasPrefix(vs, "/") {
				if len(vs) < 2 || !strings.HasSuffix(vs, "/") {
					return r, false
				}
				re, err := regexp.Compile("^(?:" + vs[1:len(vs)-1] + ")$")
				if err != nil {
					return r, false
				}
				r.conds[lk] = re.MatchString
			} else {
				want := vs
				r.conds[lk] = func(s string) bool { return s == want }
			}
		default:
			return r, false
		}
	}
	switch r.action {
	case "accept", "reject", "drop":
	default:
		return r, false
	}
	return r, true
}

func (r refRule) matches(p fwPacket) bool {
	for f, c := range r.conds {
		if !c(p.field(f)) {
			return false
		}
	}
	return true
}

func refDecide(rules []refRule, p fwPacket) string {
	for _, r := range rules {
		if r.matches(p) {
			return r.action
		}
	}
	return "accept"
}

func implDecide(rules []netceptor.FirewallRuleFunc, p fwPacket) string {
	md := &netceptor.MessageData{FromNode: p.FromNode, ToNode: p.ToNode, FromService: p.FromService, ToService: p.ToService}
	// the loop of Netceptor.handleMessageData (re-checked on real nodes by level 2)
	result := netceptor.FirewallResultAccept
	for _, rule := range rules {
		result = rule(md)
		if result != netceptor.FirewallResultContinue {
			break
		}
	}
	switch result {
	case netceptor.FirewallResultAccept:
		return "accept"
	case netceptor.FirewallResultReject:
		return "reject"
	case netceptor.FirewallResultDrop:
		return "drop"
	}
	return "accept" // handleMessageData treats a trailing Continue as fall-through to accept
}

func fwRuleString(rule map[interface{}]interface{}) string {
	var parts []string
	for k, v := range rule {
		parts = append(parts, fmt.Sprintf("%v=%#v", k, v))
	}
	sort.Strings(parts)
	return "{" + strings.Join(parts, ",") + "}"
}

func fwListString(list []map[interface{}]interface{}) string {
	var s []string
	for _, r := range list {
		s = append(s, fwRuleString(r))
	}
	return "[" + strings.Join(s, " ") + "]"
}

func fwKeyOf(rule map[interface{}]interface{}, what string) string {
	// violation key: the kind of failure + the most specific offending pattern class (value independent)
	rank := []string{"bare-slash", "regex-unterminated", "regex-uncompilable", "regex-alternation", "regex", "literal", "empty"}
	best := len(rank)
	for k, v := range rule {
		ks := strings.ToLower(fmt.Sprint(k))
		vs, isStr := v.(string)
		if ks == "action" || !isStr {
			continue
		}
		c := classifyPattern(vs)
		for i, r := range rank {
			if r == c && i < best {
				best = i
			}
		}
	}
	if best == len(rank) {
		return "fw:" + what
	}
	return "fw:" + what + ":" + rank[best]
}

func classifyPattern(p string) string {
	switch {
	case p == "":
		return "empty"
	case p == "/":
		return "bare-slash"
	case strings.HasPrefix(p, "/") && !strings.HasSuffix(p, "/"):
		return "regex-unterminated"
	case strings.HasPrefix(p, "/"):
		if _, err := regexp.Compile(p[1 : len(p)-1]); err != nil {
			return "regex-uncompilable"
		}
		if strings.Contains(p, "|") {
			return "regex-alternation"
		}
		return "regex"
	}
	return "literal"
}

// checkFwList is the oracle for one ordered rule list.
func checkFwList(list []map[interface{}]interface{}, pkts []fwPacket) CaseOut {
	var out CaseOut
	var ref []refRule
	valid := true
	for _, r := range list {
		rr, ok := refParse(r)
		if !ok {
			valid = false
		}
		ref = append(ref, rr)
	}
	in := make([]netceptor.FirewallRuleData, len(list))
	for i, r := range list {
		in[i] = netceptor.FirewallRuleData(r)
	}
	rules, err := netceptor.ParseFirewallRules(in)
	out.Nontrivial = len(list) > 0
	if !valid {
		out.Outcome = "must-refuse"
		if err == nil {
			// which rule is the uninterpretable one
			for _, r := range list {
				if _, ok := refParse(r); !ok {
					out.violate(fwKeyOf(r, "accepted-uninterpretable"), "rule list %s contains an uninterpretable rule %s but ParseFirewallRules accepted it", fwListString(list), fwRuleString(r))
					break
				}
			}
		}
		return out
	}
	if err != nil {
		out.Outcome = "refused-valid"
		out.violate("fw:refused-valid", "valid rule list %s refused: %v", fwListString(list), err)
		return out
	}
	if len(rules) != len(list) {
		out.violate("fw:rulecount", "ParseFirewallRules returned %d functions for %d rules", len(rules), len(list))
		return out
	}
	dec := map[string]int{}
	for _, p := range pkts {
		want := refDecide(ref, p)
		got := implDecide(rules, p)
		dec[want]++
		if got != want {
			// find the first rule whose own verdict differs from the reference: that names the pattern class
			key := "fw:decision"
			md := &netceptor.MessageData{FromNode: p.FromNode, ToNode: p.ToNode, FromService: p.FromService, ToService: p.ToService}
			for i, r := range list {
				m := rules[i](md) != netceptor.FirewallResultContinue
				if m != ref[i].matches(p) {
					key = fwKeyOf(r, "match-differs")
					break
				}
			}
			out.violate(key, "rules %s packet %+v: implementation decides %s, first matching rule says %s", fwListString(list), p, got, want)
		}
	}
	out.Outcome = fmt.Sprintf("valid a%d r%d d%d", dec["accept"], dec["reject"], dec["drop"])
	return out
}

func runC12(w *W) {
	pkts := fwPackets()
	// (1) every single rule over the full pattern-kind product
	actions := []string{"accept", "reject", "drop", "ACCEPT", "Reject", "bogus", ""}
	nk := len(fwPatKinds)
	total := nk * nk * nk * nk
	for _, act := range actions {
		for code := 0; code < total; code++ {
			c := code
			kinds := make([]string, 4)
			for i := 0; i < 4; i++ {
				kinds[i] = fwPatKinds[c%nk]
				c /= nk
			}
			// thorough: all; quick: at most two non-absent "exotic" kinds to keep it short
			if !w.Thorough() {
				ex := 0
				for _, k := range kinds {
					if k != "absent" && k != "lit" {
						ex++
					}
				}
				if ex > 2 {
					continue
				}
			}
			rule := map[interface{}]interface{}{"Action": act}
			for i, f := range fwFields {
				if kinds[i] != "absent" {
					rule[f] = fwPattern(kinds[i], fwBase[f])
				}
			}
			id := fmt.Sprintf("single act=%q kinds=%s", act, strings.Join(kinds, ","))
			w.Case(id, func() CaseOut {
				o := checkFwList([]map[interface{}]interface{}{rule}, pkts)
				o.Sample = map[string]any{"rules": fwListString([]map[interface{}]interface{}{rule}), "outcome": o.Outcome}
				return o
			})
		}
	}
	// (2) key spelling, unknown keys, non-string keys and values
	oddRules := []map[interface{}]interface{}{
		{"ACTION": "accept", "FromNode": "n1"},
		{"action": "drop", "FROMNODE": "n1", "ToSeRvIcE": "s2"},
		{"action": "accept", "bogus": "x"},
		{"action": "accept", "from_node": "n1"},
		{"action": "accept", 5: "x"},
		{"action": "accept", "fromnode": 5},
		{"action": "accept", "fromnode": true},
		{"action": "accept", "fromnode": nil},
		{"action": "accept", "fromnode": []interface{}{"n1"}},
		{"action": "accept", "fromnode": map[interface{}]interface{}{"a": "b"}},
		{"action": 1},
		{"action": nil},
		{},
		{"fromnode": "n1"},
		{"action": "reject", "fromnode": ""},
		{"action": "reject", "fromnode": "/(?i)N1/"},
		{"action": "reject", "fromnode": "/n1$|^zz/"},
		{"action": "reject", "fromnode": "/(n1/"},
		{"action": "reject", "fromnode": "/n1)/"},
		{"action": "reject", "toservice": "/s2\\/"},
		{"action": "reject", "toservice": "/*/"},
		{"action": "reject", "toservice": "/s2/x"},
		{"action": "reject", "toservice": " /s2/"},
		{"action": " reject"},
		{"action": "accept\n"},
	}
	for i, r := range oddRules {
		rule := r
		w.Case(fmt.Sprintf("odd #%d %s", i, fwRuleString(rule)), func() CaseOut {
			return checkFwList([]map[interface{}]interface{}{rule}, pkts)
		})
	}
	// (3) all ordered lists over a 12-rule core
	core := []map[interface{}]interface{}{
		{"action": "accept"},
		{"action": "drop"},
		{"action": "reject", "fromnode": "n1"},
		{"action": "accept", "fromnode": "n1", "toservice": "s2"},
		{"action": "drop", "tonode": "/n2.*/"},
		{"action": "reject", "toservice": "/s2|zz/"},
		{"action": "accept", "fromservice": "s1x"},
		{"action": "drop", "fromnode": "/n1/", "tonode": "n2x"},
		{"action": "reject", "fromnode": "nomatch"},
		{"action": "bogus", "fromnode": "n1"},
		{"action": "drop", "toservice": "/[/"},
		{"action": "accept", "tonode": "/n2"},
	}
	maxLen := 2
	if w.Thorough() {
		maxLen = 3
	}
	var rec func(prefix []int)
	rec = func(prefix []int) {
		if len(prefix) > 0 {
			list := make([]map[interface{}]interface{}, len(prefix))
			for i, x := range prefix {
				list[i] = core[x]
			}
			w.Case(fmt.Sprintf("list %v", prefix), func() CaseOut {
				o := checkFwList(list, pkts)
				o.Nontrivial = len(list) > 1
				return o
			})
		}
		if len(prefix) == maxLen {
			return
		}
		for i := range core {
			rec(append(append([]int{}, prefix...), i))
		}
	}
	rec(nil)
	// (4) the same pattern text on different fields, in one rule and across the rules of a list (and, since the cases of
	// one worker process run one after the other, across rule sets)
	same := []map[interface{}]interface{}{
		{"action": "drop", "fromnode": "/n1.*/", "tonode": "/n1.*/"},
		{"action": "reject", "fromservice": "/s.x/", "toservice": "/s.x/"},
		{"action": "accept", "fromnode": "/n1/"},
		{"action": "reject", "tonode": "/n1/"},
		{"action": "accept", "fromservice": "/s1.*/"},
		{"action": "drop", "toservice": "/s1.*/"},
		{"action": "drop", "tonode": "/n1.*/"},
		{"action": "accept", "fromnode": "/n1.*/"},
		{"action": "drop"},
	}
	for i := range same {
		i := i
		w.Case(fmt.Sprintf("same-pattern rule %d", i), func() CaseOut { return checkFwList([]map[interface{}]interface{}{same[i]}, pkts) })
		for j := range same {
			j := j
			w.Case(fmt.Sprintf("same-pattern list [%d %d]", i, j), func() CaseOut {
				o := checkFwList([]map[interface{}]interface{}{same[i], same[j]}, pkts)
				o.Nontrivial = true
				return o
			})
		}
	}
	w.Case("empty list", func() CaseOut { return checkFwList(nil, pkts) })
	runC12MeshAll(w)
}

func init() {
	register(&PropSpec{
		ID:        "C12",
		Level:     "exploration",
		Technique: "bounded-exhaustive enumeration of rule lists x packets against a reference interpreter (real ParseFirewallRules + rule functions; real nodes in a synctest bubble for origin/transit/destination)",
		Rule: "every single rule over the product of 10 pattern kinds per field x 7 actions (quick: at most 2 exotic kinds per rule), a menu of odd keys/values, and every ordered list of length <=2 (quick) / <=3 (thorough) over a 12-rule core; every rule and every ordered pair from 9 rules that use one pattern text on different fields; each evaluated on all 16 packets (2 values per field). " +
			"A case is one rule list; it is non-trivial when it has at least one rule (single rules) or more than one rule (lists); cases are distinct by construction (each list enumerated once). " +
			"Level 2: every ordered list of <=2 rules (thorough: a third of the triples) over a 10-rule menu installed at the origin, the transit node or the destination of a real 3-node chain in a synctest bubble, one packet in each direction: delivery / `blocked by firewall` notice from the deciding node / silence must equal what the first matching rule dictates at every node the packet and the returning notice touch.",
		Assumptions: []string{
			"level 1 replicates the three-line rule loop of handleMessageData; level 2 exercises the real loop on real nodes",
			"an empty pattern string means the field is not given; duplicate keys differing only in case are not generated",
		},
		Run: runC12,
	})
}
