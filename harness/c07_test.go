package harness

import (
	"context"
	"encoding/json"
	"fmt"
	"strings"
	"testing"
	"testing/synctest"
	"time"
)

// C07 — no bytes from a backend peer can crash or wedge a node.
//
// One bubble per input: victim v (real), good neighbour g (real), scripted peer "evil" attached to v.
// The input is injected before or after evil's handshake; afterwards g must still reach v and v must
// still reach g (ping both ways over their direct link), and the process must be alive.

type c07Input struct {
	Name  string
	Msgs  [][]byte
	Phase string // "pre": before evil's hello; "post": after the session is established
	Class string // grammar class, used in violation keys
	NewPeer string // after the messages a further backend session is opened whose handshake announces this node ID
}

// pingVia issues a ping in a helper goroutine and pumps deliveries until it returns.
func (m *mesh) ping(src, dst string, hops byte) (string, error) {
	type res struct {
		from string
		err  error
	}
	rc := make(chan res, 1)
	go func() {
		_, from, err := m.nodes[src].Ping(context.Background(), dst, hops)
		rc <- res{from, err}
	}()
	for i := 0; i < 400; i++ {
		synctest.Wait()
		select {
		case r := <-rc:
			return r.from, r.err
		default:
		}
		if m.flush() == 0 {
			time.Sleep(100 * time.Millisecond)
		}
	}
	return "", fmt.Errorf("harness: ping did not return within 40 virtual seconds")
}

func evilHello(epoch uint64, seq uint64) []byte {
	return mkRoute(wireRoute{NodeID: "evil", UpdateID: fmt.Sprintf("evil%d", seq), UpdateEpoch: epoch, UpdateSequence: seq, Connections: map[string]float64{"v": 1}, ForwardingNode: "evil"})
}

// victimEpoch reads v's start epoch from the hello it sent to the scripted peer.
func victimEpoch(m *mesh) uint64 {
	var msgs [][]byte
	msgs = append(msgs, m.recvd["evil"]...)
	if s := m.sess["v>evil"]; s != nil {
		s.mu.Lock()
		for _, q := range s.outbox {
			msgs = append(msgs, q.data)
		}
		s.mu.Unlock()
	}
	for _, d := range msgs {
		if len(d) > 0 && d[0] == 1 {
			var r wireRoute
			if json.Unmarshal(d[1:], &r) == nil && r.NodeID == "v" {
				return r.UpdateEpoch
			}
		}
	}
	return 0
}

func runC07Input(t *testing.T, in c07Input) CaseOut {
	var out CaseOut
	out.Nontrivial = true
	bubble(t, func(t *testing.T) {
		m := newMesh(defaultConsts, "v", "g")
		m.up("v", "g", 1)
		m.settle()
		ev := m.attach("v", "evil")
		drainEvil := func() {
			if s := m.sess["v>evil"]; s != nil {
				s.mu.Lock()
				s.outbox = nil
				s.mu.Unlock()
			}
		}
		established := false
		if in.Phase == "post" {
			ev.inject(evilHello(1000, 1))
			synctest.Wait()
			m.settle()
			for _, c := range m.nodes["v"].Status().Connections {
				if c.NodeID == "evil" {
					established = true
				}
			}
			if !established {
				out.violate("harness:c07-no-handshake", "scripted peer could not establish a session")
			}
		}
		epoch := victimEpoch(m)
		for _, raw := range in.Msgs {
			msg := raw
			// placeholders the generator cannot know in advance
			if strings.Contains(string(msg), "\"@VEPOCH@\"") {
				msg = []byte(strings.ReplaceAll(string(msg), "\"@VEPOCH@\"", fmt.Sprint(epoch)))
			}
			if strings.Contains(string(msg), "\"@VEPOCH+1@\"") {
				msg = []byte(strings.ReplaceAll(string(msg), "\"@VEPOCH+1@\"", fmt.Sprint(epoch+(1<<24))))
			}
			if ev.isClosed() {
				break
			}
			ev.inject(msg)
			synctest.Wait()
			drainEvil()
			m.flush()
			m.tick(150 * time.Millisecond)
			drainEvil()
			m.flush()
		}
		if in.NewPeer != "" && !ev.isClosed() {
			// what the first session said about a third node must not trip up that node's own later session
			np := m.attach("v", in.NewPeer)
			np.inject(mkRoute(wireRoute{NodeID: in.NewPeer, UpdateID: "np1", UpdateEpoch: 2000, UpdateSequence: 1, Connections: map[string]float64{"v": 1}, ForwardingNode: in.NewPeer}))
			synctest.Wait()
			m.flush()
			m.tick(150 * time.Millisecond)
			np.inject(mkRoute(wireRoute{NodeID: in.NewPeer, UpdateID: "np2", UpdateEpoch: 2000, UpdateSequence: 2, Connections: map[string]float64{"v": 1}, ForwardingNode: in.NewPeer}))
			synctest.Wait()
			if s := m.sess["v>"+in.NewPeer]; s != nil {
				s.mu.Lock()
				s.outbox = nil
				s.mu.Unlock()
			}
		}
		m.settle()
		drainEvil()
		// health: the victim still works for its well-behaved peer
		select {
		case <-m.nodes["v"].NetceptorDone():
			out.violate("peer:victim-shut-down:"+in.Class, "after input %s (%s phase) the victim node shut itself down", in.Name, in.Phase)
			out.Outcome = "shutdown"
			m.end()
			return
		default:
		}
		if from, err := m.ping("g", "v", 10); err != nil || from != "v" {
			out.violate("peer:good-peer-cannot-reach-victim:"+in.Class, "after input %s (%s phase): ping g->v = %q, %v; v status %s", in.Name, in.Phase, from, err, m.nodeState("v"))
		}
		if from, err := m.ping("v", "g", 10); err != nil || from != "g" {
			out.violate("peer:victim-cannot-reach-good-peer:"+in.Class, "after input %s (%s phase): ping v->g = %q, %v; v status %s", in.Name, in.Phase, from, err, m.nodeState("v"))
		}
		if _, ok := m.nodes["g"].Status().RoutingTable["v"]; !ok {
			out.violate("peer:route-lost:"+in.Class, "after input %s: g has no route to v", in.Name)
		}
		stillConn := false
		for _, c := range m.nodes["v"].Status().Connections {
			if c.NodeID == "evil" {
				stillConn = true
			}
		}
		out.Outcome = fmt.Sprintf("%s survived evil-connected=%v", in.Phase, stillConn)
		m.end()
	})
	return out
}

// ---- the message grammar ------------------------------------------------------------------------------

var jsonShapes = []string{`null`, `true`, `1`, `-1`, `1.5`, `18446744073709551616`, `"s"`, `""`, `[]`, `[1,"a"]`, `{}`, `{"a":{"b":[1,null]}}`}

func c07Grammar(thorough bool) []c07Input {
	var ins []c07Input
	add := func(class, name string, msgs ...[]byte) {
		ins = append(ins, c07Input{Name: name, Msgs: msgs, Class: class})
	}
	add("empty", "zero-length datagram", []byte{})
	for _, tb := range []byte{0, 1, 2, 3, 4, 255} {
		add(fmt.Sprintf("type%d-bare", tb), fmt.Sprintf("type %d, empty body", tb), []byte{tb})
		for _, body := range []string{"{", "nul", "\x00\x00", strings.Repeat("[", 2000)} {
			add(fmt.Sprintf("type%d-garbage", tb), fmt.Sprintf("type %d body %q", tb, trunc(body, 12)), append([]byte{tb}, body...))
		}
		for _, sh := range jsonShapes {
			add(fmt.Sprintf("type%d-shape", tb), fmt.Sprintf("type %d body %s", tb, sh), append([]byte{tb}, sh...))
		}
	}
	// routing updates: field substitution on a valid update from the peer itself, and on updates about third nodes
	baseRoute := func(over map[string]string, drop string) []byte {
		f := map[string]string{"NodeID": `"evil"`, "UpdateID": `"u-x"`, "UpdateEpoch": `1000`, "UpdateSequence": `50`, "Connections": `{"v":1}`, "ForwardingNode": `"evil"`, "SuspectedDuplicate": `0`}
		for k, v := range over {
			f[k] = v
		}
		var parts []string
		for _, k := range []string{"NodeID", "UpdateID", "UpdateEpoch", "UpdateSequence", "Connections", "ForwardingNode", "SuspectedDuplicate"} {
			if k == drop {
				continue
			}
			parts = append(parts, fmt.Sprintf("%q:%s", k, f[k]))
		}
		return []byte("\x01{" + strings.Join(parts, ",") + "}")
	}
	routeFields := []string{"NodeID", "UpdateID", "UpdateEpoch", "UpdateSequence", "Connections", "ForwardingNode", "SuspectedDuplicate"}
	subst := []string{`null`, `true`, `7`, `-1`, `18446744073709551616`, `1.5`, `"x"`, `""`, `[]`, `{}`, `{"v":"x"}`, `{"v":null}`, `{"v":-1}`, `{"v":0}`, `{"":1}`, `{"v":1e308}`}
	for _, fld := range routeFields {
		add("route-field-absent", "route without "+fld, baseRoute(nil, fld))
		for _, v := range subst {
			add("route-field-"+fld, fmt.Sprintf("route %s=%s", fld, v), baseRoute(map[string]string{fld: v}, ""))
		}
	}
	// semantically absurd but well-typed
	add("route-absurd", "update about g with empty connections, huge sequence", baseRoute(map[string]string{"NodeID": `"g"`, "UpdateEpoch": `18446744073709551615`, "UpdateSequence": `18446744073709551615`, "Connections": `{}`}, ""))
	add("route-absurd", "update naming the victim with its own epoch", baseRoute(map[string]string{"NodeID": `"v"`, "UpdateEpoch": `"@VEPOCH@"`, "Connections": `{}`}, ""))
	add("route-absurd", "update naming the victim with a newer epoch", baseRoute(map[string]string{"NodeID": `"v"`, "UpdateEpoch": `"@VEPOCH+1@"`, "Connections": `{}`}, ""))
	add("route-absurd", "update naming the victim with an older epoch", baseRoute(map[string]string{"NodeID": `"v"`, "UpdateEpoch": `1`, "Connections": `{}`}, ""))
	add("route-forged-duplicate-notice", "forged suspected-duplicate notice carrying the victim's epoch", baseRoute(map[string]string{"NodeID": `"v"`, "UpdateEpoch": `"@VEPOCH+1@"`, "SuspectedDuplicate": `"@VEPOCH@"`}, ""))
	// suspected-duplicate notices about every kind of origin: the peer itself, a known third node, the victim, a
	// node nobody has heard of
	for _, nid := range []string{"evil", "g", "v", "ghost"} {
		for _, sd := range []string{`1`, `"@VEPOCH@"`, `18446744073709551615`} {
			for _, ep := range []string{`1000`, `"@VEPOCH@"`, `"@VEPOCH+1@"`} {
				cls := "route-duplicate-notice"
				if nid == "v" && sd == `"@VEPOCH@"` && ep != `"@VEPOCH@"` {
					cls = "route-forged-duplicate-notice"
				}
				add(cls, fmt.Sprintf("suspected-duplicate notice about %s, duplicate epoch %s, update epoch %s", nid, sd, ep),
					baseRoute(map[string]string{"NodeID": `"` + nid + `"`, "UpdateID": `"u-n"`, "UpdateEpoch": ep, "SuspectedDuplicate": sd}, ""))
			}
		}
	}
	// two updates about a third node x (the second one with an odd connection list), then x itself connects
	for _, conns := range []string{`null`, `{}`, `{"v":1}`, `{"evil":1,"v":1}`, "@ABSENT@"} {
		first := baseRoute(map[string]string{"NodeID": `"x"`, "UpdateID": `"x-1"`, "UpdateEpoch": `1500`, "UpdateSequence": `1`, "Connections": `{"evil":1}`}, "")
		second := baseRoute(map[string]string{"NodeID": `"x"`, "UpdateID": `"x-2"`, "UpdateEpoch": `1500`, "UpdateSequence": `2`, "Connections": conns}, "")
		if conns == "@ABSENT@" {
			second = baseRoute(map[string]string{"NodeID": `"x"`, "UpdateID": `"x-2"`, "UpdateEpoch": `1500`, "UpdateSequence": `2`}, "Connections")
		}
		ins = append(ins, c07Input{Name: "updates about x (second with Connections " + conns + "), then x connects", Msgs: [][]byte{first, second}, Class: "route-third-node-then-its-session", NewPeer: "x"})
		ins = append(ins, c07Input{Name: "one update about x with Connections " + conns + ", then x connects", Msgs: [][]byte{second}, Class: "route-third-node-then-its-session", NewPeer: "x"})
	}
	add("route-absurd", "forwarder changes to g", baseRoute(map[string]string{"ForwardingNode": `"g"`}, ""))
	add("route-absurd", "forwarder is the victim", baseRoute(map[string]string{"ForwardingNode": `"v"`}, ""))
	add("route-absurd", "stops listing the victim", baseRoute(map[string]string{"Connections": `{"zz":1}`}, ""))
	add("route-absurd", "cost disagreement", baseRoute(map[string]string{"Connections": `{"v":7}`}, ""))
	add("route-absurd", "self loop and negative costs", baseRoute(map[string]string{"Connections": `{"evil":1,"v":1,"g":-5}`}, ""))
	{
		var sb strings.Builder
		sb.WriteString(`{"v":1`)
		for i := 0; i < 3000; i++ {
			fmt.Fprintf(&sb, `,"n%d":1`, i)
		}
		sb.WriteString("}")
		add("route-huge", "3000 connections", baseRoute(map[string]string{"Connections": sb.String()}, ""))
		add("route-huge", "70 KB node id", baseRoute(map[string]string{"NodeID": `"` + strings.Repeat("N", 70000) + `"`}, ""))
		add("route-huge", "70 KB update id", baseRoute(map[string]string{"UpdateID": `"` + strings.Repeat("U", 70000) + `"`}, ""))
	}
	add("route-dup-keys", "duplicate keys", []byte("\x01"+`{"NodeID":"evil","NodeID":"g","UpdateID":"d1","UpdateEpoch":1000,"UpdateSequence":60,"Connections":{"v":1},"ForwardingNode":"evil"}`))
	add("route-trailing", "trailing garbage after the object", append(baseRoute(nil, ""), []byte("}}xx")...))
	// advertisements
	baseAd := func(over map[string]string, drop string) []byte {
		f := map[string]string{"NodeID": `"evil"`, "Service": `"svc"`, "Time": `"2024-01-01T00:00:00Z"`, "ConnType": `0`, "Tags": `{"a":"b"}`, "WorkCommands": `null`, "Cancel": `false`}
		for k, v := range over {
			f[k] = v
		}
		var parts []string
		for _, k := range []string{"NodeID", "Service", "Time", "ConnType", "Tags", "WorkCommands", "Cancel"} {
			if k == drop {
				continue
			}
			parts = append(parts, fmt.Sprintf("%q:%s", k, f[k]))
		}
		return []byte("\x02{" + strings.Join(parts, ",") + "}")
	}
	adFields := []string{"NodeID", "Service", "Time", "ConnType", "Tags", "WorkCommands", "Cancel"}
	adSubst := []string{`null`, `true`, `-1`, `256`, `1.5`, `"x"`, `""`, `[]`, `{}`, `[{"WorkType":1}]`, `[null]`, `{"a":1}`, `"9999-99-99T00:00:00Z"`}
	for _, fld := range adFields {
		add("ad-field-absent", "ad without "+fld, baseAd(nil, fld))
		for _, v := range adSubst {
			add("ad-field-"+fld, fmt.Sprintf("ad %s=%s", fld, v), baseAd(map[string]string{fld: v}, ""))
		}
	}
	add("ad-no-embedded", "only Cancel:true", []byte("\x02"+`{"Cancel":true}`))
	add("ad-no-embedded", "only Cancel:false", []byte("\x02"+`{"Cancel":false}`))
	add("ad-no-embedded", "empty object", []byte("\x02{}"))
	add("ad-absurd", "ad for the victim's own service", baseAd(map[string]string{"NodeID": `"v"`, "Service": `"control"`, "Time": `"2999-01-01T00:00:00Z"`}, ""))
	add("ad-absurd", "cancel of a service never seen", baseAd(map[string]string{"NodeID": `"g"`, "Cancel": `true`}, ""))
	add("ad-absurd", "cancel for victim", baseAd(map[string]string{"NodeID": `"v"`, "Cancel": `true`, "Time": `"2999-01-01T00:00:00Z"`}, ""))
	add("ad-huge", "60 KB tag", baseAd(map[string]string{"Tags": `{"a":"` + strings.Repeat("t", 60000) + `"}`}, ""))
	// data packets
	for n := 0; n <= 40; n++ {
		b := make([]byte, 1+n) // type byte 0 + n bytes
		for i := 1; i < len(b); i++ {
			b[i] = byte(i)
		}
		add("data-short", fmt.Sprintf("data packet of %d bytes", 1+n), b)
	}
	{
		full := mkData(9, "evil", "v", "fromsvc", "nosvc", []byte("0123456789"))
		for n := 1; n <= len(full); n++ {
			add("data-truncated", fmt.Sprintf("valid data packet truncated to %d bytes", n), full[:n])
		}
		fwd := mkData(9, "evil", "g", "fromsvc", "nosvc", []byte("0123456789"))
		for n := 1; n <= len(fwd); n++ {
			add("data-truncated", fmt.Sprintf("valid transit packet truncated to %d bytes", n), fwd[:n])
		}
	}
	nodes := []string{"v", "g", "evil", "nobody"}
	svcs := []string{"ping", "unreach", "nosvc", "", "\xff\xff\xff\xff\xff\xff\xff\xff"}
	for _, ttl := range []byte{0, 1, 255} {
		for _, fn := range nodes {
			for _, tn := range nodes {
				for _, svc := range svcs {
					if !thorough && svc == "" && fn != "evil" {
						continue
					}
					add("data-header", fmt.Sprintf("data ttl=%d %s->%s svc=%q", ttl, fn, tn, svc), mkData(ttl, fn, tn, "from", svc, []byte("payload")))
				}
			}
		}
	}
	for _, p := range []string{``, `{`, `null`, `[]`, `{"FromNode":1}`, `{"FromNode":"v","ToNode":"g","FromService":"x","ToService":"y","Problem":"service unknown"}`, `{"Problem":{"a":1}}`, strings.Repeat("x", 20000)} {
		add("data-unreach-payload", fmt.Sprintf("unreach payload %q", trunc(p, 20)), mkData(5, "evil", "v", "unreach", "unreach", []byte(p)))
		add("data-unreach-payload", fmt.Sprintf("unreach-from-svc payload %q", trunc(p, 20)), mkData(5, "evil", "v", "x", "unreach", []byte(p)))
		add("data-ping-payload", fmt.Sprintf("ping payload %q", trunc(p, 20)), mkData(5, "evil", "v", "x", "ping", []byte(p)))
	}
	add("data-selfloop", "packet from v to v", mkData(30, "v", "v", "ping", "ping", nil))
	add("data-selfloop", "packet from v to v unreach", mkData(30, "v", "v", "unreach", "unreach", []byte(`{}`)))
	add("data-pingpong", "ping claiming to come from g's ping service", mkData(30, "g", "v", "ping", "ping", nil))
	add("data-oversize", "64 KB data packet", mkData(30, "evil", "v", "x", "nosvc", make([]byte, 65000)))
	add("reject", "reject with payload", append([]byte{3}, `["go away"]`...))
	return ins
}

func trunc(s string, n int) string {
	if len(s) > n {
		return s[:n] + "…"
	}
	return s
}

func runC07(w *W) {
	ins := c07Grammar(w.Thorough())
	for _, phase := range []string{"post", "pre"} {
		for i, in := range ins {
			in := in
			in.Phase = phase
			w.Case(fmt.Sprintf("%s #%d %s", phase, i, in.Name), func() CaseOut {
				o := runC07Input(w.T, in)
				if i%97 == 0 {
					o.Sample = map[string]any{"phase": phase, "input": in.Name, "first_bytes": fmt.Sprintf("%q", trunc(string(in.Msgs[0]), 60)), "outcome": o.Outcome}
				}
				return o
			})
		}
	}
	if w.Thorough() {
		// ordered pairs over a reduced menu (one representative per class)
		rep := map[string]c07Input{}
		var order []string
		for _, in := range ins {
			if _, ok := rep[in.Class]; !ok {
				rep[in.Class] = in
				order = append(order, in.Class)
			}
		}
		for _, a := range order {
			for _, b := range order {
				x, y := rep[a], rep[b]
				in := c07Input{Name: x.Name + " ; " + y.Name, Msgs: [][]byte{x.Msgs[0], y.Msgs[0]}, Phase: "post", Class: a + "+" + b}
				if a == "route-forged-duplicate-notice" || b == "route-forged-duplicate-notice" {
					// the forged notice is what shuts the victim down, whatever accompanies it (known finding)
					in.Class = "route-forged-duplicate-notice"
				}
				w.Case("pair "+in.Name, func() CaseOut { return runC07Input(w.T, in) })
			}
		}
	}
}

func init() {
	register(&PropSpec{
		ID:        "C07",
		Level:     "exploration",
		Technique: "bounded-exhaustive enumeration of a message grammar delivered by a scripted peer to a real Netceptor node in a synctest bubble, and over a real TCP backend connection to the real daemon process, each input followed by a liveness probe from a well-behaved real neighbour",
		Rule: "messages: length 0; every type byte {0,1,2,3,4,255} x {empty, truncated JSON, binary, deep nesting, 12 JSON value shapes}; routing update and service advertisement with each of their 7 fields absent or replaced by 15/13 wrongly typed values; semantically absurd updates (victim's own ID with same/newer/older epoch, forged duplicate notice, updates about a third node with null / empty / absent connection lists followed by that node's own session, forwarder change, cost disagreement, 3000 connections, 70 KB strings); data packets of every length 1..41, TTL {0,1,255} x 4x4 node hashes x 5 service names, malformed unreach/ping payloads, 64 KB packet; each in both protocol phases (thorough: all ordered pairs of class representatives); two representatives of every grammar class (thorough: every input) also against the real daemon over a real TCP backend connection, with a second real connection as the well-behaved neighbour. " +
			"Every input is a distinct message; all are non-trivial (delivered to the real runProtocol loop). Oracle: process alive, victim not shut down, ping g->v and v->g answered, route intact; real daemon: process alive, `status` answered on the control socket, the neighbour's ping datagram answered, a fresh backend connection greeted.",
		Assumptions: []string{"the liveness probe uses the direct link between victim and good peer (a mesh member can by design advertise false topology about third nodes)"},
		Run:         runC07,
		Exec:        execC07,
		Coord:       coordC07,
		CaseTimeout: 60 * time.Second,
	})
}
