package harness

import (
	"bytes"
	"encoding/json"
	"errors"
	"fmt"
	"io"
	"strings"
	"sync"
	"testing"
	"time"

	"github.com/ansible/receptor/pkg/netceptor"
	"github.com/ansible/receptor/pkg/utils"
)

// C03 — mesh streams are reliable ordered byte pipes despite loss and re-routing.

// ---- (a) the bridge under every environment answer sequence with bounded deviations -------------------

type scriptConn struct {
	r       *xrun
	name    string
	toRead  [][]byte // chunks this side will produce
	readPos int
	partial []byte
	written bytes.Buffer
	closed  bool
	gate    chan struct{} // Read blocks on it first (the reverse direction waits until the forward one is over)
	mu      sync.Mutex
	failed  bool
}

func (c *scriptConn) Read(p []byte) (int, error) {
	if c.gate != nil {
		<-c.gate
		c.gate = nil
	}
	c.mu.Lock()
	defer c.mu.Unlock()
	if c.closed {
		return 0, errors.New("use of closed network connection")
	}
	if len(c.partial) > 0 {
		n := copy(p, c.partial)
		c.partial = c.partial[n:]
		return n, nil
	}
	if c.readPos >= len(c.toRead) {
		if c.r != nil && c.r.choose([]string{c.name + ".read=EOF", c.name + ".read=error"}) == c.name+".read=error" {
			c.failed = true
			return 0, errors.New("connection reset by peer")
		}
		return 0, io.EOF
	}
	chunk := c.toRead[c.readPos]
	opts := []string{c.name + ".read=full"}
	if len(chunk) > 1 {
		opts = append(opts, c.name+".read=short", c.name+".read=one-byte")
	}
	opts = append(opts, c.name+".read=data+EOF", c.name+".read=error")
	choice := opts[0]
	if c.r != nil {
		choice = c.r.choose(opts)
	}
	switch choice {
	case c.name + ".read=short":
		h := len(chunk) / 2
		c.partial = chunk[h:]
		c.readPos++
		return copy(p, chunk[:h]), nil
	case c.name + ".read=one-byte":
		c.partial = chunk[1:]
		c.readPos++
		return copy(p, chunk[:1]), nil
	case c.name + ".read=data+EOF":
		// a reader may return the last bytes together with the end-of-stream
		c.readPos++
		if c.readPos >= len(c.toRead) {
			return copy(p, chunk), io.EOF
		}
		return copy(p, chunk), nil
	case c.name + ".read=error":
		c.failed = true
		return 0, errors.New("connection reset by peer")
	}
	c.readPos++
	return copy(p, chunk), nil
}

func (c *scriptConn) Write(p []byte) (int, error) {
	c.mu.Lock()
	defer c.mu.Unlock()
	if c.closed {
		return 0, errors.New("use of closed network connection")
	}
	opts := []string{c.name + ".write=full"}
	if len(p) > 1 {
		opts = append(opts, c.name+".write=short")
	}
	opts = append(opts, c.name+".write=error")
	choice := opts[0]
	if c.r != nil {
		choice = c.r.choose(opts)
	}
	switch choice {
	case c.name + ".write=short":
		c.failed = true
		c.written.Write(p[:len(p)-1])
		return len(p) - 1, nil
	case c.name + ".write=error":
		c.failed = true
		return 0, errors.New("broken pipe")
	}
	c.written.Write(p)
	return len(p), nil
}

func (c *scriptConn) Close() error {
	c.mu.Lock()
	c.closed = true
	c.mu.Unlock()
	return nil
}

func runC03Bridge(chunks [][]byte, r *xrun) []Violation {
	var out CaseOut
	gate := make(chan struct{})
	src := &scriptConn{r: r, name: "src", toRead: chunks}
	dst := &scriptConn{r: nil, name: "dst", gate: gate}
	dst.r = r
	var sent []byte
	for _, c := range chunks {
		sent = append(sent, c...)
	}
	done := make(chan struct{})
	go func() {
		utils.BridgeConns(src, "src", dst, "dst", quietLogger())
		close(done)
	}()
	// the reverse half (dst -> src) starts only when the forward half has finished with dst
	go func() {
		for i := 0; i < 2000; i++ {
			dst.mu.Lock()
			cl := dst.closed
			dst.mu.Unlock()
			if cl {
				break
			}
			time.Sleep(time.Millisecond)
		}
		close(gate)
	}()
	select {
	case <-done:
	case <-time.After(20 * time.Second):
		out.violate("bridge:never-returns", "BridgeConns did not return")
		return out.Viol
	}
	got := dst.written.Bytes()
	if src.failed || dst.failed {
		// a failing side may cut the stream, but what was delivered is a prefix: nothing altered, repeated or re-ordered
		if len(got) > len(sent) || !bytes.Equal(got, sent[:len(got)]) {
			out.violate("bridge:delivered-bytes-not-a-prefix", "sent %q, delivered %q after a failure", trunc(string(sent), 60), trunc(string(got), 60))
		}
	} else if !bytes.Equal(got, sent) {
		kind := "lost-bytes"
		if len(got) > len(sent) {
			kind = "extra-bytes"
		} else if len(got) == len(sent) {
			kind = "altered-bytes"
		}
		out.violate("bridge:"+kind, "sent %d bytes %q, delivered %d bytes %q (no side failed)", len(sent), trunc(string(sent), 60), len(got), trunc(string(got), 60))
	}
	if !dst.closed {
		out.violate("bridge:end-of-stream-not-propagated", "the source ended but the destination was not closed")
	}
	return dedupViol(out.Viol)
}

// ---- (b) real QUIC streams over lossy harness links, in real time -----------------------------------------

type c03Fault struct {
	Link  string // "x>y"
	Index int    // n-th data packet on that link direction after the stream is open (0-based)
	Kind  string // drop | dup | delay
}

type c03Args struct {
	Connect bool   // the control service's connect bridge (bubble) instead of a raw stream
	Mode    string // connect: "" the service echoes after end-of-stream; "reply-first": it answers and closes its sending side before it reads anything, and reads late
	Topo    string // chain2 | chain3 | chain4 | diamond
	Size    int
	Write   int // write size (0: one write)
	Faults  []c03Fault
	CutAt   int // diamond: cut the active first-hop link after this many data packets (0: never)
	Sibling int // >0: an earlier stream between the same nodes is closed first; a copy of its last datagram is delivered late, after this many bytes of the second stream
	StallMs int // the link stops taking data (its Send blocks) this long before it is cut: datagrams are caught in mid-forwarding
	Both    bool
}

func (a c03Args) String() string {
	if a.Connect {
		if a.Mode != "" {
			return fmt.Sprintf("connect bridging size=%d service=%s", a.Size, a.Mode)
		}
		return fmt.Sprintf("connect bridging size=%d", a.Size)
	}
	if a.Sibling > 0 {
		return fmt.Sprintf("two streams in a row, late datagram of the first after %d bytes of the second (size %d)", a.Sibling, a.Size)
	}
	if a.StallMs > 0 {
		return fmt.Sprintf("topo=%s size=%d write=%d faults=%v cut=%d stall=%dms both=%v", a.Topo, a.Size, a.Write, a.Faults, a.CutAt, a.StallMs, a.Both)
	}
	return fmt.Sprintf("topo=%s size=%d write=%d faults=%v cut=%d both=%v", a.Topo, a.Size, a.Write, a.Faults, a.CutAt, a.Both)
}

func c03Data(n int, seed byte) []byte {
	b := make([]byte, n)
	x := uint32(seed) + 1
	for i := range b {
		x = x*1664525 + 1013904223
		b[i] = byte(x >> 24)
	}
	return b
}

func writeAll(c io.Writer, data []byte, chunk int) error {
	if chunk <= 0 {
		chunk = len(data)
	}
	for len(data) > 0 {
		n := chunk
		if n > len(data) {
			n = len(data)
		}
		if _, err := c.Write(data[:n]); err != nil {
			return err
		}
		data = data[n:]
	}
	return nil
}

func execC03(w *W, raw json.RawMessage) CaseOut {
	var a c03Args
	json.Unmarshal(raw, &a)
	if a.Connect {
		res := make(chan CaseOut, 1)
		go func() {
			defer func() { recover() }()
			runC03Connect(w.T, a.Size, a.Mode, res)
		}()
		select {
		case o := <-res:
			return o
		case <-time.After(80 * time.Second):
			return CaseOut{Viol: []Violation{{Key: "hang:c03-connect", Msg: "connect bridging made no progress for 80 s"}}}
		}
	}
	if a.Sibling > 0 {
		return execC03Sibling(a)
	}
	var out CaseOut
	out.Nontrivial = true
	var names []string
	var edges [][2]string
	switch a.Topo {
	case "chain2":
		names, edges = []string{"a", "b"}, [][2]string{{"a", "b"}}
	case "chain3":
		names, edges = []string{"a", "b", "c"}, [][2]string{{"a", "b"}, {"b", "c"}}
	case "chain4":
		names, edges = []string{"a", "b", "c", "d"}, [][2]string{{"a", "b"}, {"b", "c"}, {"c", "d"}}
	case "diamond":
		names, edges = []string{"a", "b", "c", "d"}, [][2]string{{"a", "b"}, {"b", "d"}, {"a", "c"}, {"c", "d"}}
	}
	first, last := names[0], names[len(names)-1]
	m := newMesh(defaultConsts, names...)
	m.realtime = true
	m.latency = 2 * time.Millisecond
	for _, e := range edges {
		m.up(e[0], e[1], 1)
	}
	// convergence in real time
	dl := time.Now().Add(10 * time.Second)
	for time.Now().Before(dl) {
		if _, ok := m.nodes[first].Status().RoutingTable[last]; ok {
			if _, ok := m.nodes[last].Status().RoutingTable[first]; ok {
				break
			}
		}
		time.Sleep(20 * time.Millisecond)
	}
	li, err := m.nodes[last].Listen("echo", nil)
	if err != nil {
		out.violate("harness:c03-listen", "%v", err)
		return out
	}
	down := c03Data(a.Size, 1) // first -> last
	up := c03Data(a.Size/2+1, 2)
	if !a.Both {
		up = nil
	}
	type srvRes struct {
		got []byte
		err error
	}
	srvCh := make(chan srvRes, 1)
	go func() {
		c, err := li.Accept()
		if err != nil {
			srvCh <- srvRes{nil, err}
			return
		}
		var wg sync.WaitGroup
		if up != nil {
			wg.Add(1)
			go func() {
				defer wg.Done()
				writeAll(c, up, a.Write)
				c.Close() // half-close: the client sees end-of-stream after the last byte
			}()
		}
		b, rerr := io.ReadAll(c)
		if up == nil {
			c.Close()
		}
		wg.Wait()
		srvCh <- srvRes{b, rerr}
	}()
	conn, err := m.nodes[first].Dial(last, "echo", nil)
	if err != nil {
		out.count("dial_failed", 1)
		out.Outcome = "dial-failed"
		return out
	}
	// arm the faults now: indices count data packets from here on
	var fmu sync.Mutex
	counts := map[string]int{}
	total := 0
	activeFirstHop := first + ">" + m.nodes[first].Status().RoutingTable[last]
	cutDone := false
	for k, s := range m.sess {
		k, s := k, s
		s.filter = func(n int, data []byte) (bool, bool, time.Duration) {
			if len(data) == 0 || data[0] != 0 {
				return false, false, 0
			}
			fmu.Lock()
			defer fmu.Unlock()
			i := counts[k]
			counts[k]++
			total++
			if a.CutAt > 0 && !cutDone && k == activeFirstHop && i+1 >= a.CutAt {
				cutDone = true
				x, y := s.from, s.to
				if a.StallMs > 0 {
					// a congested link: it takes nothing more (the node's writer is stuck in Send, the next
					// datagram waits in forwardMessage), and is declared dead a little later
					s.stall = make(chan struct{})
					go func() {
						time.Sleep(time.Duration(a.StallMs) * time.Millisecond)
						m.down(x, y)
					}()
				} else {
					go m.down(x, y)
				}
			}
			for _, f := range a.Faults {
				if f.Link == k && f.Index == i {
					switch f.Kind {
					case "drop":
						return true, false, 0
					case "dup":
						return false, true, 0
					case "delay":
						return false, false, 30 * time.Millisecond
					}
				}
			}
			return false, false, 0
		}
	}
	cliCh := make(chan srvRes, 1)
	go func() {
		b, rerr := io.ReadAll(conn)
		cliCh <- srvRes{b, rerr}
	}()
	werr := writeAll(conn, down, a.Write)
	conn.Close()
	ctx := a.String()
	timeout := time.After(60 * time.Second)
	var sres, cres srvRes
	for got := 0; got < 2; {
		select {
		case sres = <-srvCh:
			got++
		case cres = <-cliCh:
			got++
		case <-timeout:
			k := "stream:transfer-does-not-finish"
			if a.StallMs > 0 {
				k += ":stalled-link-cut"
			}
			out.violate(k, "%s: not finished after 60 s (write error %v, %d data packets seen)", ctx, werr, total)
			return out
		}
	}
	if werr != nil {
		out.violate("stream:write-failed", "%s: write failed: %v", ctx, werr)
	}
	check := func(dir string, got, want []byte, rerr error) {
		if bytes.Equal(got, want) && rerr == nil {
			return
		}
		kind := "lost-bytes"
		switch {
		case len(got) > len(want):
			kind = "extra-bytes"
		case len(got) == len(want):
			kind = "altered-bytes"
		case !bytes.Equal(got, want[:len(got)]):
			kind = "altered-bytes"
		}
		out.violate("stream:"+kind+":"+dir, "%s: %s: wrote %d bytes, the other end read %d bytes (read error %v)", ctx, dir, len(want), len(got), rerr)
	}
	check("dialer-to-listener", sres.got, down, sres.err)
	if up != nil {
		check("listener-to-dialer", cres.got, up, cres.err)
	} else if len(cres.got) != 0 {
		out.violate("stream:extra-bytes:listener-to-dialer", "%s: the dialer read %d bytes nobody wrote", ctx, len(cres.got))
	}
	fmu.Lock()
	out.count("data_packets", total)
	applied := 0
	for _, f := range a.Faults {
		if counts[f.Link] > f.Index {
			applied++
		}
	}
	fmu.Unlock()
	out.count("faults_applied", applied)
	if cutDone {
		out.count("links_cut", 1)
	}
	if a.StallMs > 0 {
		for i := range out.Viol {
			out.Viol[i].Key += ":stalled-link-cut"
		}
	}
	out.Outcome = fmt.Sprintf("%s faults=%d applied=%d cut=%v", a.Topo, len(a.Faults), applied, cutDone)
	out.Sample = map[string]any{"case": ctx, "data_packets": total, "faults_applied": applied}
	return out
}

// execC03Sibling: two streams in a row from a to the same service on b. The first one is closed completely; while
// the second one carries data from b to a, a copy of the last datagram that b had sent for the FIRST stream is
// delivered late (a duplicate that crossed the close). The second stream is not affected: exact bytes, then EOF.
func execC03Sibling(a c03Args) CaseOut {
	var out CaseOut
	out.Nontrivial = true
	m := newMesh(defaultConsts, "a", "b")
	m.realtime = true
	m.latency = 2 * time.Millisecond
	m.up("a", "b", 1)
	for dl := time.Now().Add(10 * time.Second); time.Now().Before(dl); time.Sleep(20 * time.Millisecond) {
		if _, ok := m.nodes["a"].Status().RoutingTable["b"]; ok {
			if _, ok := m.nodes["b"].Status().RoutingTable["a"]; ok {
				break
			}
		}
	}
	li, err := m.nodes["b"].Listen("echo", nil)
	if err != nil {
		out.violate("harness:c03-listen", "%v", err)
		return out
	}
	data := c03Data(a.Size, 7)
	var srvErr error
	srvDone := make(chan struct{})
	go func() {
		defer close(srvDone)
		// first stream: short exchange
		c1, err := li.Accept()
		if err != nil {
			srvErr = err
			return
		}
		buf := make([]byte, 5)
		io.ReadFull(c1, buf)
		c1.Write([]byte("bye"))
		c1.Close()
		// second stream: b sends, paced
		c2, err := li.Accept()
		if err != nil {
			srvErr = err
			return
		}
		for off := 0; off < len(data); off += 1200 {
			end := off + 1200
			if end > len(data) {
				end = len(data)
			}
			if _, err := c2.Write(data[off:end]); err != nil {
				srvErr = fmt.Errorf("write at %d: %v", off, err)
				return
			}
			time.Sleep(300 * time.Microsecond)
		}
		c2.Close()
	}()
	ctx := a.String()
	c1, err := m.nodes["a"].Dial("b", "echo", nil)
	if err != nil {
		out.violate("harness:c03-dial", "first stream: %v", err)
		return out
	}
	eph := c1.LocalAddr().String()
	if i := strings.LastIndex(eph, ":"); i >= 0 {
		eph = eph[i+1:]
	}
	var recMu sync.Mutex
	var rec []byte
	m.sess["b>a"].tap = func(d []byte) {
		if h, ok := parseData(d); ok && h.ToSvc == eph {
			recMu.Lock()
			rec = append([]byte(nil), d...)
			recMu.Unlock()
		}
	}
	c1.Write([]byte("hello"))
	rb := make([]byte, 3)
	io.ReadFull(c1, rb)
	c1.Close()
	c1.CloseConnection()
	// the first stream's socket on a is gone
	for dl := time.Now().Add(5 * time.Second); time.Now().Before(dl); time.Sleep(10 * time.Millisecond) {
		gone := true
		for _, l := range m.nodes["a"].VerifSnapshot().Listeners {
			if l == eph {
				gone = false
			}
		}
		if gone {
			break
		}
	}
	time.Sleep(50 * time.Millisecond)
	recMu.Lock()
	late := rec
	recMu.Unlock()
	if late == nil {
		out.violate("harness:c03-sibling", "no datagram of the first stream was seen on the link")
		return out
	}
	c2, err := m.nodes["a"].Dial("b", "echo", nil)
	if err != nil {
		out.violate("harness:c03-dial", "second stream: %v", err)
		return out
	}
	var got []byte
	injected := false
	buf := make([]byte, 32768)
	var rerr error
	c2.SetReadDeadline(time.Now().Add(60 * time.Second))
	for {
		n, err := c2.Read(buf)
		got = append(got, buf[:n]...)
		if !injected && len(got) >= a.Sibling {
			injected = true
			// the late duplicate arrives at a
			peer := m.sess["b>a"].peer
			go func() {
				select {
				case peer.in <- append([]byte(nil), late...):
				case <-peer.closed:
				}
			}()
		}
		if err != nil {
			if err != io.EOF {
				rerr = err
			}
			break
		}
	}
	select {
	case <-srvDone:
	case <-time.After(30 * time.Second):
	}
	if !injected {
		out.count("late_datagram_not_injected", 1)
	}
	if !bytes.Equal(got, data) || rerr != nil {
		kind := "lost-bytes"
		if len(got) > len(data) {
			kind = "extra-bytes"
		} else if len(got) <= len(data) && !bytes.Equal(got, data[:len(got)]) {
			kind = "altered-bytes"
		}
		out.violate("stream:"+kind+":sibling-late-datagram", "%s: the second stream delivered %d of %d bytes (read error %v, writer error %v) after a late datagram of the closed first stream arrived", ctx, len(got), len(data), rerr, srvErr)
	} else if srvErr != nil {
		out.violate("stream:write-failed:sibling-late-datagram", "%s: the writer of the second stream failed: %v", ctx, srvErr)
	}
	out.Outcome = fmt.Sprintf("sibling injected=%v", injected)
	return out
}

func coordC03(c *Coord) {
	// (a) bridge and (c) connect bridging run as shard cases
	c.runShards()
	if c.stopped() {
		return
	}
	p := c.newPool()
	defer p.close()
	var jobs []c03Args
	for _, sz := range []int{0, 1, 1200, 20000, 200000} {
		jobs = append(jobs, c03Args{Connect: true, Size: sz})
		jobs = append(jobs, c03Args{Connect: true, Size: sz, Mode: "reply-first"})
	}
	sizes := []int{0, 1, 1200, 20000}
	if c.Thorough() {
		sizes = append(sizes, 200000)
	}
	// loss-free transfers: every size x write pattern x topology, both directions
	for _, topo := range []string{"chain2", "chain3", "chain4", "diamond"} {
		for _, sz := range sizes {
			for _, wr := range []int{0, 7, 1200} {
				if wr == 7 && sz > 20000 {
					continue
				}
				if !c.Thorough() && topo == "chain4" && wr != 0 {
					continue
				}
				jobs = append(jobs, c03Args{Topo: topo, Size: sz, Write: wr, Both: true})
			}
		}
	}
	// single faults at every index <= K on every link direction of the path
	K := 24
	if c.Thorough() {
		K = 60
	}
	linksOf := map[string][]string{"chain2": {"a>b", "b>a"}, "chain3": {"a>b", "b>c", "c>b", "b>a"}}
	for _, topo := range []string{"chain2", "chain3"} {
		for _, l := range linksOf[topo] {
			for i := 0; i < K; i++ {
				for _, kind := range []string{"drop", "dup", "delay"} {
					if !c.Thorough() && topo == "chain3" && i%2 == 1 {
						continue
					}
					jobs = append(jobs, c03Args{Topo: topo, Size: 20000, Write: 1200, Both: true, Faults: []c03Fault{{l, i, kind}}})
				}
			}
		}
	}
	// pairs of faults on a stride-4 grid (thorough)
	if c.Thorough() {
		for i := 0; i < 40; i += 4 {
			for j := i; j < 40; j += 4 {
				for _, k1 := range []string{"drop", "delay"} {
					for _, k2 := range []string{"drop", "dup"} {
						jobs = append(jobs, c03Args{Topo: "chain2", Size: 20000, Write: 1200, Both: true, Faults: []c03Fault{{"a>b", i, k1}, {"b>a", j, k2}}})
						if i != j {
							jobs = append(jobs, c03Args{Topo: "chain2", Size: 20000, Write: 1200, Both: true, Faults: []c03Fault{{"a>b", i, k1}, {"a>b", j, k2}}})
						}
					}
				}
			}
		}
	}
	// cut the active link of the diamond after t data packets while the other path exists
	cutMax := 30
	if c.Thorough() {
		cutMax = 80
	}
	for t := 1; t <= cutMax; t += 2 {
		jobs = append(jobs, c03Args{Topo: "diamond", Size: 60000, Write: 1200, Both: true, CutAt: t})
		if t%4 == 1 {
			jobs = append(jobs, c03Args{Topo: "diamond", Size: 60000, Write: 1200, Both: true, CutAt: t, StallMs: 300})
		}
	}
	// a late duplicate of a closed earlier stream's datagram arrives while the next stream carries data
	for _, at := range []int{1, 30000, 150000, 290000} {
		jobs = append(jobs, c03Args{Topo: "chain2", Size: 300000, Sibling: at})
	}
	var wg sync.WaitGroup
	sem := make(chan struct{}, p.size())
	for _, j := range jobs {
		if c.stopped() {
			break
		}
		j := j
		wg.Add(1)
		sem <- struct{}{}
		go func() {
			defer wg.Done()
			defer func() { <-sem }()
			r := p.exec(j)
			rawj, _ := json.Marshal(j)
			c.record(j.String(), rawj, r.Out)
		}()
	}
	wg.Wait()
}

func runC03(w *W) {
	payloads := [][][]byte{
		{},
		{[]byte("a")},
		{[]byte("hello world")},
		{[]byte("first chunk"), []byte("second")},
		{[]byte("x"), []byte("yz"), []byte("0123456789")},
	}
	bound := 2
	for i, chunks := range payloads {
		chunks := chunks
		w.explorerCase(fmt.Sprintf("bridge payload #%d (%d chunks) d=%d", i, len(chunks), bound), bound, func(r *xrun) []Violation { return runC03Bridge(chunks, r) })
	}
}

// ---- (c) the control service's connect command: real bridge between a control session and a mesh stream ----

func runC03Connect(t *testing.T, size int, mode string, early chan CaseOut) {
	var out CaseOut
	out.Nontrivial = true
	defer func() { early <- out }()
	bubble(t, func(t *testing.T) {
		m := newMesh(defaultConsts, "a", "b")
		m.latency = 2 * time.Millisecond
		m.up("a", "b", 1)
		time.Sleep(2 * time.Second)
		m.wait()
		li, err := m.nodes["b"].Listen("echo", nil)
		if err != nil {
			out.violate("harness:c03-listen", "%v", err)
			return
		}
		data := c03Data(size, 3)
		srvGot := make(chan []byte, 1)
		go func() {
			c, err := li.Accept()
			if err != nil {
				srvGot <- nil
				return
			}
			if mode == "reply-first" {
				// the service is done talking before it has read anything; it reads late
				c.Write([]byte("bye"))
				c.Close() // half-close: end of ITS stream only
				time.Sleep(3 * time.Second)
				b, rerr := io.ReadAll(c)
				if rerr != nil {
					b = append(b, []byte(fmt.Sprintf("<read error: %v>", rerr))...)
				}
				srvGot <- b
				return
			}
			b, _ := io.ReadAll(c)
			c.Write(b) // echo everything back after the client's end-of-stream
			c.Close()
			srvGot <- b
		}()
		e := &ctlEnv{n: m.nodes["a"], addrNet: "unix"}
		e.cs = controlsvcNew(m.nodes["a"])
		s, err := e.open()
		if err != nil {
			out.violate("harness:c03-open", "%v", err)
			return
		}
		s.send([]byte("connect b echo\n"))
		l, err := s.readLine(30 * time.Second)
		if err != nil || l != "Connecting" {
			out.violate("stream:connect-refused", "connect answered %q, %v", l, err)
			return
		}
		s.send(data)
		s.closeWrite()
		back, rerr := s.readAll(60 * time.Second)
		var got []byte
		select {
		case got = <-srvGot:
		case <-time.After(60 * time.Second):
		}
		if !bytes.Equal(got, data) {
			out.violate("stream:bridge-lost-bytes:session-to-stream", "connect bridge: sent %d bytes, the service read %d", len(data), len(got))
		}
		if mode == "reply-first" {
			if string(back) != "bye" {
				out.violate("stream:bridge-lost-bytes:stream-to-session", "connect bridge (service answers first): the session read %q (%v), the service wrote \"bye\"", trunc(string(back), 40), rerr)
			}
		} else if !bytes.Equal(back, data) {
			out.violate("stream:bridge-lost-bytes:stream-to-session", "connect bridge: the service echoed %d bytes, the session read %d (%v)", len(data), len(back), rerr)
		}
		out.Outcome = "connect"
		early <- out
	})
}

var _ = netceptor.New

func init() {
	register(&PropSpec{
		ID:        "C03",
		Level:     "fault_enumeration",
		Technique: "enumeration of fault positions (drop / duplicate / delay of the i-th datagram of every link direction, link cut after t datagrams with a second path) on real QUIC streams between real nodes over harness links in real time, one process per execution; deviation-bounded DFS over environment answers (short reads, errors, short writes) of the real BridgeConns; the connect command's bridge in a synctest bubble",
		Rule: "loss-free: sizes {0,1,1200,20000 (thorough 200000)} x write sizes {one write, 7, 1200} x {1,2,3 hops, diamond}, both directions at once with half-close by both sides; single faults {drop, duplicate, +30 ms delay} at every data-packet index < 24 (thorough 60) of every link direction on 1- and 2-hop paths (2 hops quick: even indices); thorough: pairs of faults on a stride-4 grid; cutting the active first-hop link of the diamond after t = 1,3,..,29 (thorough 79) data packets, and for t = 1,5,9,.. additionally with the link stalled (Send blocks) for 300 ms before it is cut, so that datagrams are caught in the middle of being forwarded; two streams in a row between the same nodes, the first closed, a copy of its last datagram delivered late after 1 / 30000 / 150000 / 290000 bytes of the second; bridge: payloads of 0-3 chunks, every answer sequence with <=2 deviations; connect command: the service echoes after end-of-stream, or answers and half-closes before it reads anything and reads 3 s later. " +
			"Each execution is distinct; non-trivial = a stream was transferred. Oracle: bytes read = bytes written in both directions, end-of-stream after the last byte, completion within 60 s; after a failing side the bridge delivered a prefix.",
		Assumptions: []string{"QUIC packetisation is not replay-stable: a fault index names the i-th data packet of this run (faults_applied counts the ones that hit)", "real time with a 60 s completion limit (observed transfers: tens of milliseconds)", "the TCP/Unix proxy services are represented by their BridgeConns core"},
		Run:         runC03,
		Exec:        execC03,
		Coord:       coordC03,
		OneShot:     true,
		CaseTimeout: 100 * time.Second,
		NoFailFast:  true,
	})
}
