package harness

import (
	"encoding/json"
	"fmt"
	"os"
	"sort"
	"strings"
	"testing"
	"testing/synctest"
	"time"

	"github.com/ansible/receptor/pkg/netceptor"
)

// C01 — routing converges to least-cost, loop-free next hops after topology changes stop.

type c01Edge struct {
	X, Y     string
	Cost     float64
	Override bool // cost configured as per-node override (both ends consistently) instead of connection cost
}

type c01Scenario struct {
	Names  []string
	Edges  []c01Edge
	Events []string
	Bound  int
	Aged   int // >0: the mesh runs this many route-update periods before the first event (long-lived nodes: high sequence numbers)
}

func (sc c01Scenario) String() string {
	var es []string
	for _, e := range sc.Edges {
		o := ""
		if e.Override {
			o = "*"
		}
		es = append(es, fmt.Sprintf("%s-%s:%g%s", e.X, e.Y, e.Cost, o))
	}
	aged := ""
	if sc.Aged > 0 {
		aged = fmt.Sprintf(" aged=%d", sc.Aged)
	}
	return fmt.Sprintf("n=%d edges=[%s] events=[%s]%s d=%d", len(sc.Names), strings.Join(es, " "), strings.Join(sc.Events, "; "), aged, sc.Bound)
}

func (m *mesh) upEdge(e c01Edge) {
	if e.Override {
		// connection cost 1 on the backend, per-node override = e.Cost, identical on both ends
		a, b := m.pair(e.X, e.Y)
		m.cost[lk(e.X, e.Y)] = e.Cost
		bx, by := newMemBackend(), newMemBackend()
		m.nodes[e.X].AddBackend(bx, netceptor.BackendConnectionCost(1), netceptor.BackendNodeCost(map[string]float64{e.Y: e.Cost}))
		m.nodes[e.Y].AddBackend(by, netceptor.BackendConnectionCost(1), netceptor.BackendNodeCost(map[string]float64{e.X: e.Cost}))
		bx.ch <- a
		by.ch <- b
		synctest.Wait()
		return
	}
	m.up(e.X, e.Y, e.Cost)
}

// applyEvent performs one topology event; stopped holds the links a stopped node had (for restart).
func (m *mesh) applyEvent(ev string, stopped map[string][]c01Edge) {
	f := strings.Fields(ev)
	switch f[0] {
	case "down":
		m.down(f[1], f[2])
	case "up":
		var c float64
		fmt.Sscan(f[3], &c)
		m.up(f[1], f[2], c)
	case "silent":
		m.setSilent(f[1], f[2])
	case "stop":
		x := f[1]
		var had []c01Edge
		for _, y := range m.names {
			if c, ok := m.cost[lk(x, y)]; ok && y != x {
				had = append(had, c01Edge{X: x, Y: y, Cost: c})
			}
		}
		stopped[x] = had
		m.stop(x)
	case "restart":
		x := f[1]
		m.restart(x)
		for _, e := range stopped[x] {
			if m.alive[e.Y] {
				m.up(e.X, e.Y, e.Cost)
			}
		}
		delete(stopped, x)
	}
}

func runC01Once(w *W, sc c01Scenario, r *xrun) []Violation {
	var out CaseOut
	bubble(w.T, func(t *testing.T) {
		m := newMesh(defaultConsts, sc.Names...)
		for _, e := range sc.Edges {
			m.upEdge(e)
		}
		m.closure(1)
		m.checkRouting(&out, "after bring-up")
		if sc.Aged > 0 {
			m.closure(sc.Aged)
		}
		stopped := map[string][]c01Edge{}
		mon := func() { m.checkConnsSubset(&out, "intermediate") }
		aborted := false
		for i, ev := range sc.Events {
			m.applyEvent(ev, stopped)
			r.steps++
			res := m.exploreSettle(r, settleOpts{canFireNext: i < len(sc.Events)-1, ctx: fmt.Sprintf("ev%d", i), monitor: mon})
			if res == "pruned" {
				aborted = true
				break
			}
		}
		if !aborted {
			m.closure(4)
			m.checkRouting(&out, "final")
		}
		m.end()
	})
	return dedupViol(out.Viol)
}

func dedupViol(v []Violation) []Violation {
	seen := map[string]bool{}
	var o []Violation
	for _, x := range v {
		if !seen[x.Key] {
			seen[x.Key] = true
			o = append(o, x)
		}
	}
	return o
}

// c01EventSeqs enumerates all event sequences up to length k from the menu, tracking the abstract topology.
func c01EventSeqs(names []string, edges []c01Edge, k int, restrict map[string]bool) [][]string {
	type state struct {
		up      map[string]float64
		silent  map[string]bool
		alive   map[string]bool
		stopped map[string]bool
	}
	clone := func(s state) state {
		n := state{map[string]float64{}, map[string]bool{}, map[string]bool{}, map[string]bool{}}
		for k, v := range s.up {
			n.up[k] = v
		}
		for k, v := range s.silent {
			n.silent[k] = v
		}
		for k, v := range s.alive {
			n.alive[k] = v
		}
		for k, v := range s.stopped {
			n.stopped[k] = v
		}
		return n
	}
	init := state{map[string]float64{}, map[string]bool{}, map[string]bool{}, map[string]bool{}}
	for _, n := range names {
		init.alive[n] = true
	}
	for _, e := range edges {
		init.up[lk(e.X, e.Y)] = e.Cost
	}
	var res [][]string
	var rec func(s state, seq []string)
	rec = func(s state, seq []string) {
		res = append(res, append([]string(nil), seq...))
		if len(seq) == k {
			return
		}
		for i, x := range names {
			for _, y := range names[i+1:] {
				key := lk(x, y)
				if restrict != nil && !restrict[key] {
					continue
				}
				if !s.alive[x] || !s.alive[y] {
					continue
				}
				if _, ok := s.up[key]; ok {
					n := clone(s)
					delete(n.up, key)
					delete(n.silent, key)
					rec(n, append(seq, "down "+x+" "+y))
					if !s.silent[key] {
						n2 := clone(s)
						n2.silent[key] = true
						rec(n2, append(seq, "silent "+x+" "+y))
					}
				} else {
					n := clone(s)
					n.up[key] = 1
					rec(n, append(seq, "up "+x+" "+y+" 1"))
				}
			}
		}
		for _, x := range names {
			if restrict != nil && !restrict[x] {
				continue
			}
			if s.alive[x] {
				n := clone(s)
				n.alive[x] = false
				n.stopped[x] = true
				// its links disappear; restart brings back those to live nodes
				rec(n, append(seq, "stop "+x))
			} else if s.stopped[x] {
				n := clone(s)
				n.alive[x] = true
				delete(n.stopped, x)
				rec(n, append(seq, "restart "+x))
			}
		}
	}
	rec(init, nil)
	return res
}

func c01Topologies3() [][]c01Edge {
	var tops [][]c01Edge
	all := [][2]string{{"a", "b"}, {"b", "c"}, {"a", "c"}}
	costVariants := [][]float64{{1, 1, 1}, {3, 1, 1}, {1, 0.5, 2}}
	for mask := 1; mask < 8; mask++ {
		for vi, cv := range costVariants {
			var es []c01Edge
			for i, p := range all {
				if mask&(1<<i) != 0 {
					es = append(es, c01Edge{X: p[0], Y: p[1], Cost: cv[i]})
				}
			}
			// cost variants only matter when more than one edge exists
			if vi > 0 && len(es) < 2 {
				continue
			}
			if vi == 2 && len(es) < 3 {
				continue
			}
			tops = append(tops, es)
		}
	}
	// per-node cost override variant on the triangle
	tops = append(tops, []c01Edge{{X: "a", Y: "b", Cost: 3, Override: true}, {X: "b", Y: "c", Cost: 1}, {X: "a", Y: "c", Cost: 1}})
	return tops
}

func c01Topologies4() [][]c01Edge {
	e := func(x, y string, c float64) c01Edge { return c01Edge{X: x, Y: y, Cost: c} }
	return [][]c01Edge{
		{e("a", "b", 1), e("b", "c", 1), e("c", "d", 1)},                                                 // path
		{e("a", "b", 1), e("a", "c", 1), e("a", "d", 1)},                                                 // star
		{e("a", "b", 1), e("b", "c", 1), e("c", "d", 1), e("d", "a", 1)},                                 // square
		{e("a", "b", 1), e("b", "c", 1), e("c", "d", 1), e("d", "a", 5)},                                 // square, one expensive
		{e("a", "b", 1), e("b", "c", 1), e("a", "c", 1), e("c", "d", 1)},                                 // triangle with tail
		{e("a", "b", 1), e("b", "c", 2), e("c", "d", 1), e("d", "a", 1), e("a", "c", 0.5)},               // kite
		{e("a", "b", 1), e("b", "c", 1), e("c", "d", 1), e("d", "a", 1), e("a", "c", 1), e("b", "d", 1)}, // complete
	}
}

func runC01(w *W) {
	type plan struct {
		names []string
		tops  [][]c01Edge
		k     int
		bound int
		restr map[string]bool
	}
	n3 := []string{"a", "b", "c"}
	n4 := []string{"a", "b", "c", "d"}
	var plans []plan
	r4 := map[string]bool{"b-c": true, "a-d": true, "c": true}
	if w.Thorough() {
		plans = []plan{
			{n3, c01Topologies3(), 2, 2, nil},
			{n3, c01Topologies3(), 3, 0, nil},
			{n4, c01Topologies4(), 1, 2, nil},
			{n4, c01Topologies4(), 2, 1, r4},
		}
	} else {
		plans = []plan{
			{n3, c01Topologies3(), 1, 2, nil},
			{n3, c01Topologies3(), 2, 1, nil},
			{n4, c01Topologies4(), 1, 1, r4},
			{n4, c01Topologies4(), 2, 0, r4},
		}
	}
	// long-lived meshes: the nodes have sent dozens of periodic updates before anything happens; the closure
	// after the last event stays at 4 periods
	tri := []c01Edge{{X: "a", Y: "b", Cost: 1}, {X: "b", Y: "c", Cost: 1}, {X: "a", Y: "c", Cost: 3}}
	agedEvents := [][]string{
		{"stop c", "restart c"}, {"stop b", "restart b"}, {"down a b", "up a b 1"}, {"silent b c"},
		{"stop c", "restart c", "down a c"}, {"stop b", "restart b", "down a b"},
	}
	for _, evs := range agedEvents {
		b := 1
		if len(evs) > 2 {
			b = 0
		}
		sc := c01Scenario{Names: n3, Edges: tri, Events: evs, Bound: b, Aged: 25}
		w.explorerCase(sc.String(), sc.Bound, func(r *xrun) []Violation { return runC01Once(w, sc, r) })
	}
	done := map[string]bool{}
	for _, p := range plans {
		for _, top := range p.tops {
			for _, seq := range c01EventSeqs(p.names, top, p.k, p.restr) {
				if len(seq) == 0 {
					continue
				}
				sc := c01Scenario{Names: p.names, Edges: top, Events: seq, Bound: p.bound}
				id := sc.String()
				base := strings.TrimSuffix(id, fmt.Sprintf(" d=%d", p.bound))
				// a scenario already explored with a bound at least as large is not repeated
				skip := false
				for b := p.bound; b <= 3; b++ {
					if done[fmt.Sprintf("%s d=%d", base, b)] {
						skip = true
					}
				}
				if skip {
					continue
				}
				done[id] = true
				w.explorerCase(id, sc.Bound, func(r *xrun) []Violation { return runC01Once(w, sc, r) })
			}
		}
	}
}

// explorerCase runs the deviation-bounded DFS for one scenario as one case. A replay id of the form
// "<scenario>@@<json schedule>" re-executes exactly one schedule.
func (w *W) explorerCase(id string, bound int, run func(r *xrun) []Violation) {
	w.explorerCaseParts(id, bound, 1, run)
}

// explorerCaseParts splits the exploration of one scenario into `parts` cases (first-level subtrees
// dealt round-robin) so that a large scenario uses several worker processes.
func (w *W) explorerCaseParts(id string, bound int, parts int, run func(r *xrun) []Violation) {
	if parts <= 1 {
		w.explorerCasePart(id, bound, 0, 1, run)
		return
	}
	for p := 0; p < parts; p++ {
		w.explorerCasePart(fmt.Sprintf("%s part=%d/%d", id, p, parts), bound, p, parts, run)
	}
}

func (w *W) explorerCasePart(id string, bound int, part, parts int, run func(r *xrun) []Violation) {
	var only []string
	realOnly := w.Job.Only
	if i := strings.Index(realOnly, "@@"); i >= 0 && realOnly[:i] == id {
		json.Unmarshal([]byte(realOnly[i+2:]), &only)
		if only == nil {
			only = []string{}
		}
		w.Job.Only = id
		defer func() { w.Job.Only = realOnly }()
	}
	w.Case(id, func() CaseOut {
		var out CaseOut
		maxExec := 4000
		dl := 90 * time.Second
		if w.Thorough() {
			maxExec = 40000
			dl = 10 * time.Minute
		}
		if s := os.Getenv("VERIF_MAXEXEC"); s != "" {
			fmt.Sscan(s, &maxExec)
		}
		st, viols := exploreDFS(bound, maxExec, time.Now().Add(dl), only, w.Beat, part, parts, run)
		out.Nontrivial = st.Executions > 1 || st.MaxPoints > 0
		out.count("executions", st.Executions)
		out.count("states", st.States)
		out.count("transitions", st.Transitions)
		out.count("diverged_prefixes", st.Diverged)
		out.count("pruned_executions", st.Pruned)
		if st.Capped {
			out.count("capped_scenarios", 1)
		}
		out.count(fmt.Sprintf("scenarios_bound_%d_complete", st.BoundDone), 1)
		seen := map[string]bool{}
		for _, v := range viols {
			if seen[v.Key] {
				continue
			}
			seen[v.Key] = true
			sched, _ := json.Marshal(v.Schedule)
			out.Viol = append(out.Viol, Violation{Key: v.Key, Msg: fmt.Sprintf("%s\nscenario: %s\nschedule (%d choices): %s\nreplay case id: %s@@%s", v.Msg, id, len(v.Schedule), sched, id, sched)})
		}
		out.Outcome = fmt.Sprintf("exec=%d", bucket(st.Executions))
		out.Sample = map[string]any{"scenario": id, "executions": st.Executions, "states": st.States, "max_choice_points": st.MaxPoints}
		return out
	})
}

func bucket(n int) int {
	b := 1
	for b < n {
		b *= 4
	}
	return b
}

func sortedKeys(m map[string]int) []string {
	ks := make([]string, 0, len(m))
	for k := range m {
		ks = append(ks, k)
	}
	sort.Strings(ks)
	return ks
}

func init() {
	register(&PropSpec{
		ID:        "C01",
		Level:     "model_checking",
		Technique: "stateless deviation-bounded DFS with state-hash pruning over message-delivery schedules of real Netceptor nodes in a synctest bubble (virtual time, harness-owned links); Floyd–Warshall oracle on ground truth",
		Rule: "scenario = initial weighted topology (all 3-node graphs x cost variants incl. a per-node cost override; seven 4-node graphs) x every sequence of <=k events from {down, up, silent, stop, restart}; six event sequences on a triangle that has run 25 route-update periods before the first event (long-lived nodes with high sequence numbers); " +
			"(k, d) per tier: quick N=3 {k=1,d=2; k=2,d=1}, N=4 {k=1,d=1; k=2,d=0 on a restricted event menu}; thorough N=3 {k=2,d=2; k=3,d=0}, N=4 {k=1,d=2; k=2,d=1 restricted} (about 100 minutes on 16 cores; scenarios whose exploration is cut off at 40000 executions or 10 minutes are counted in counters.capped_scenarios); per scenario every delivery schedule with <=d deviations from the canonical one (choice points: which link/batch member to deliver, hold a link, early timer tick, next event before the flood settled). " +
			"A case is one scenario; non-trivial = it had at least one choice point. evaluations counts scenarios; counters.executions counts complete executions of the real code.",
		Assumptions: []string{
			"macro-step atomicity: inside one delivery the Go scheduler orders goroutines; the explorer owns the order of deliveries, timer ticks and events",
			"node restarts are >= 1 virtual second apart (epoch granularity), as the property assumes",
			"state-hash pruning assumes the canonical state (node tables, link contents, deliveries since the last tick) determines the future",
		},
		Run:         runC01,
		CaseTimeout: 40 * time.Second,
	})
}
