package harness

import (
	"context"
	"fmt"
	"math"
	"strings"
	"testing"
	"testing/synctest"
	"time"

	"github.com/ansible/receptor/pkg/netceptor"
)

// C10 — hop limit bounds forwarding: reach iff distance <= hops; expiry is reported.

type c10Topo struct {
	Name  string
	Names []string
	Edges []c01Edge
}

func c10Topos() []c10Topo {
	e := func(x, y string, c float64) c01Edge { return c01Edge{X: x, Y: y, Cost: c} }
	return []c10Topo{
		{"chain2", []string{"a", "b"}, []c01Edge{e("a", "b", 1)}},
		{"chain3", []string{"a", "b", "c"}, []c01Edge{e("a", "b", 1), e("b", "c", 1)}},
		{"chain4", []string{"a", "b", "c", "d"}, []c01Edge{e("a", "b", 1), e("b", "c", 1), e("c", "d", 1)}},
		{"triangle", []string{"a", "b", "c"}, []c01Edge{e("a", "b", 1), e("b", "c", 1), e("a", "c", 3)}},
		{"square", []string{"a", "b", "c", "d"}, []c01Edge{e("a", "b", 1), e("b", "c", 1), e("c", "d", 1), e("d", "a", 5)}},
		{"star", []string{"a", "b", "c", "d"}, []c01Edge{e("a", "b", 1), e("a", "c", 2), e("a", "d", 0.5)}},
	}
}

// routePath follows the installed next hops from src to dst.
func (m *mesh) routePath(src, dst string) []string {
	p := []string{src}
	cur := src
	for cur != dst && len(p) < 40 {
		nh, ok := m.nodes[cur].Status().RoutingTable[dst]
		if !ok {
			return nil
		}
		p = append(p, nh)
		cur = nh
	}
	return p
}

type sendObs struct {
	forwards  int // traversals of the marked datagram over links between real nodes
	delivered bool
	notice    *netceptor.UnreachableNotification
	writeErr  error
}

// sendMarked sends one datagram from src:snd to dst:rcv with the given budget and settles the mesh,
// counting every appearance of the marked datagram on a link.
func (m *mesh) sendMarked(src, dst string, hops byte, rcv netceptor.PacketConner) sendObs {
	var o sendObs
	pc, err := m.nodes[src].ListenPacket("snd")
	if err != nil {
		o.writeErr = err
		return o
	}
	pc.SetHopsToLive(hops)
	done := make(chan struct{})
	nch := pc.SubscribeUnreachable(done)
	var notices []netceptor.UnreachableNotification
	go func() {
		for n := range nch {
			notices = append(notices, n)
		}
	}()
	got := make(chan bool, 1)
	if rcv != nil {
		rcv.SetReadDeadline(time.Now().Add(20 * time.Second))
		go func() {
			buf := make([]byte, 64)
			n, addr, err := rcv.ReadFrom(buf)
			got <- err == nil && string(buf[:n]) == "MARKED" && addr.String() == src+":snd"
		}()
	}
	count := func() {
		for _, k := range m.sortedLinks() {
			s := m.sess[k]
			s.mu.Lock()
			for _, q := range s.outbox {
				if h, ok := parseData(q.data); ok && h.ToSvc == "rcv" && !q.counted {
					o.forwards++
				}
			}
			for i := range s.outbox {
				s.outbox[i].counted = true
			}
			s.mu.Unlock()
		}
	}
	synctest.Wait()
	_, o.writeErr = pc.WriteTo([]byte("MARKED"), m.nodes[src].NewAddr(dst, "rcv"))
	synctest.Wait()
	for i := 0; i < 200; i++ {
		count()
		progressed := false
		for _, k := range m.sortedLinks() {
			if m.sess[k].pending() > 0 {
				m.deliverAt(k, 0)
				progressed = true
				break
			}
		}
		if !progressed {
			break
		}
	}
	synctest.Wait()
	if rcv != nil {
		time.Sleep(21 * time.Second) // let the read deadline pass if nothing arrived
		synctest.Wait()
		o.delivered = <-got
		rcv.SetReadDeadline(time.Time{})
	}
	close(done)
	synctest.Wait()
	if len(notices) > 0 {
		o.notice = &notices[0]
	}
	if len(notices) > 1 {
		o.notice.Problem += fmt.Sprintf(" (+%d more notices)", len(notices)-1)
	}
	pc.Close()
	synctest.Wait()
	return o
}

func (m *mesh) traceroute(src, dst string) ([]string, error) {
	ch := m.nodes[src].Traceroute(context.Background(), dst)
	var res []string
	var rerr error
	fin := false
	go func() {
		for r := range ch {
			res = append(res, r.From)
			if r.Err != nil {
				rerr = r.Err
			}
		}
		fin = true
	}()
	for i := 0; i < 2000 && !fin; i++ {
		synctest.Wait()
		if fin {
			break
		}
		if m.flush() == 0 {
			time.Sleep(100 * time.Millisecond)
		}
	}
	synctest.Wait()
	if !fin {
		return res, fmt.Errorf("harness: traceroute did not finish")
	}
	return res, rerr
}

func runC10Topo(t *testing.T, tp c10Topo, budgets []int) CaseOut {
	var out CaseOut
	out.Nontrivial = true
	bubble(t, func(t *testing.T) {
		m := newMesh(defaultConsts, tp.Names...)
		for _, e := range tp.Edges {
			m.upEdge(e)
		}
		m.closure(1)
		m.checkRouting(&out, "converged")
		dist := m.dist()
		for _, src := range tp.Names {
			for _, dst := range tp.Names {
				if src == dst {
					continue
				}
				path := m.routePath(src, dst)
				if path == nil {
					out.violate("hop:no-route", "%s: no installed route %s->%s", tp.Name, src, dst)
					continue
				}
				d := len(path) - 1
				rcv, err := m.nodes[dst].ListenPacket("rcv")
				if err != nil {
					out.violate("harness:c10-listen", "%v", err)
					continue
				}
				bs := append([]int{}, budgets...)
				if budgets == nil {
					for h := 0; h <= d+2; h++ {
						bs = append(bs, h)
					}
					bs = append(bs, 255)
				}
				for _, h := range bs {
					o := m.sendMarked(src, dst, byte(h), rcv)
					ctx := fmt.Sprintf("%s %s->%s (route %v, d=%d) budget %d", tp.Name, src, dst, path, d, h)
					out.count("sends", 1)
					if o.forwards > h {
						out.violate("hop:forwarded-more-than-budget", "%s: datagram seen on %d links", ctx, o.forwards)
					}
					if d <= h {
						if !o.delivered {
							out.violate("hop:not-delivered-within-budget", "%s: not delivered (forwards=%d notice=%v writeErr=%v)", ctx, o.forwards, o.notice, o.writeErr)
						}
						if o.forwards != d {
							out.violate("hop:forward-count", "%s: delivered after %d forwards, route has %d links", ctx, o.forwards, d)
						}
						if o.notice != nil {
							out.violate("hop:notice-on-success", "%s: delivered but sender got notice %+v", ctx, *o.notice)
						}
					} else {
						if o.delivered {
							out.violate("hop:delivered-beyond-budget", "%s: delivered although the route is longer than the budget", ctx)
						}
						if o.notice == nil {
							out.violate("hop:no-expiry-notice", "%s: no `message expired` notice reached the sender (forwards=%d, writeErr=%v)", ctx, o.forwards, o.writeErr)
						} else {
							if o.notice.Problem != netceptor.ProblemExpiredInTransit {
								out.violate("hop:wrong-notice", "%s: notice %q", ctx, o.notice.Problem)
							}
							if o.notice.ReceivedFromNode != path[h] {
								out.violate("hop:notice-from-wrong-node", "%s: expiry reported by %s, budget ran out at %s", ctx, o.notice.ReceivedFromNode, path[h])
							}
							if o.notice.FromNode != src || o.notice.ToNode != dst || o.notice.FromService != "snd" || o.notice.ToService != "rcv" {
								out.violate("hop:notice-fields", "%s: notice does not name the original packet: %+v", ctx, *o.notice)
							}
						}
					}
					// ping with the same budget
					from, err := m.ping(src, dst, byte(h))
					if d <= h {
						if err != nil || from != dst {
							out.violate("hop:ping-within-budget", "%s: ping = %q, %v", ctx, from, err)
						}
					} else {
						if err == nil || err.Error() != netceptor.ProblemExpiredInTransit || from != path[h] {
							out.violate("hop:ping-beyond-budget", "%s: ping = %q, %v; want %q, message expired", ctx, from, err, path[h])
						}
					}
				}
				rcv.Close()
				synctest.Wait()
				// traceroute: the nodes of one least-cost path, in order
				tr, err := m.traceroute(src, dst)
				ok := err == nil && len(tr) >= 2 && tr[0] == src && tr[len(tr)-1] == dst
				cost := 0.0
				for i := 0; ok && i+1 < len(tr); i++ {
					c, adj := m.adj(tr[i], tr[i+1])
					if !adj {
						ok = false
					}
					cost += c
				}
				if !ok || math.Abs(cost-dist[src][dst]) > 1e-9 {
					out.violate("hop:traceroute", "%s: traceroute %s->%s = %v (%v), least cost %v", tp.Name, src, dst, tr, err, dist[src][dst])
				}
				out.count("traceroutes", 1)
			}
		}
		m.end()
	})
	out.Outcome = tp.Name
	return out
}

// runC10Loop: forwarding loops made by a scripted peer that advertises a phantom node and bounces packets.
func runC10Loop(t *testing.T, three bool, budgets []int) CaseOut {
	var out CaseOut
	out.Nontrivial = true
	bubble(t, func(t *testing.T) {
		names := []string{"a"}
		if three {
			names = []string{"a", "b"}
		}
		m := newMesh(defaultConsts, names...)
		last := "a"
		if three {
			m.up("a", "b", 1)
			m.settle()
			last = "b"
		}
		// evil connects to the last real node and claims a phantom neighbour
		ev := m.attach(last, "evil")
		ev.inject(mkRoute(wireRoute{NodeID: "evil", UpdateID: "e1", UpdateEpoch: 10, UpdateSequence: 1, Connections: map[string]float64{last: 1, "ghost": 1}, ForwardingNode: "evil"}))
		synctest.Wait()
		m.settle()
		// a regular update (the first message only served as the handshake)
		ev.inject(mkRoute(wireRoute{NodeID: "evil", UpdateID: "e2", UpdateEpoch: 10, UpdateSequence: 2, Connections: map[string]float64{last: 1, "ghost": 1, "ghost2": 1}, ForwardingNode: "evil"}))
		synctest.Wait()
		m.settle()
		ev.inject(mkRoute(wireRoute{NodeID: "ghost2", UpdateID: "h1", UpdateEpoch: 10, UpdateSequence: 1, Connections: map[string]float64{"evil": 1}, ForwardingNode: "evil"}))
		synctest.Wait()
		m.settle()
		ev.inject(mkRoute(wireRoute{NodeID: "ghost", UpdateID: "g1", UpdateEpoch: 10, UpdateSequence: 1, Connections: map[string]float64{"evil": 1}, ForwardingNode: "evil"}))
		synctest.Wait()
		m.settle()
		var ev2 *hSess
		if three {
			// and to a as well, so that it can hand packets back to the start of the chain
			ev2 = m.attach("a", "evil2")
			ev2.inject(mkRoute(wireRoute{NodeID: "evil2", UpdateID: "f1", UpdateEpoch: 10, UpdateSequence: 1, Connections: map[string]float64{"a": 50}, ForwardingNode: "evil2"}))
			synctest.Wait()
			m.settle()
		}
		if nh := m.nodes["a"].Status().RoutingTable["ghost"]; nh == "" {
			out.violate("harness:c10-loop-setup", "a has no route to the phantom node: %v", m.nodes["a"].Status().RoutingTable)
			m.end()
			return
		}
		// scripted peers send no periodic updates on their own: refresh their routes before every experiment,
		// otherwise the sessions and the phantom routes expire after ~20 virtual seconds
		seq := uint64(10)
		refresh := func() {
			seq++
			ev.inject(mkRoute(wireRoute{NodeID: "evil", UpdateID: fmt.Sprintf("e%d", seq), UpdateEpoch: 10, UpdateSequence: seq, Connections: map[string]float64{last: 1, "ghost": 1, "ghost2": 1}, ForwardingNode: "evil"}))
			ev.inject(mkRoute(wireRoute{NodeID: "ghost", UpdateID: fmt.Sprintf("g%d", seq), UpdateEpoch: 10, UpdateSequence: seq, Connections: map[string]float64{"evil": 1}, ForwardingNode: "evil"}))
			ev.inject(mkRoute(wireRoute{NodeID: "ghost2", UpdateID: fmt.Sprintf("h%d", seq), UpdateEpoch: 10, UpdateSequence: seq, Connections: map[string]float64{"evil": 1}, ForwardingNode: "evil"}))
			if ev2 != nil {
				// (a regular update must list the cost a itself uses for the link, or a ends the session)
				ev2.inject(mkRoute(wireRoute{NodeID: "evil2", UpdateID: fmt.Sprintf("f%d", seq), UpdateEpoch: 10, UpdateSequence: seq, Connections: map[string]float64{"a": 1}, ForwardingNode: "evil2"}))
			}
			synctest.Wait()
			m.settle()
			m.recvd = map[string][][]byte{}
		}
		for _, h := range budgets {
			refresh()
			m.recvd = map[string][][]byte{}
			pc, _ := m.nodes["a"].ListenPacket("snd")
			pc.SetHopsToLive(byte(h))
			done := make(chan struct{})
			nch := pc.SubscribeUnreachable(done)
			var notices []netceptor.UnreachableNotification
			go func() {
				for n := range nch {
					notices = append(notices, n)
				}
			}()
			synctest.Wait()
			pc.WriteTo([]byte("LOOP"), m.nodes["a"].NewAddr("ghost", "rcv"))
			synctest.Wait()
			forwards := 0
			bounces := 0
			for i := 0; i < 4000; i++ {
				// real links
				moved := false
				for _, k := range m.sortedLinks() {
					s := m.sess[k]
					if s.pending() == 0 {
						continue
					}
					s.mu.Lock()
					d := s.outbox[0].data
					s.mu.Unlock()
					if hd, ok := parseData(d); ok && hd.ToSvc == "rcv" {
						forwards++
					}
					m.deliverAt(k, 0)
					moved = true
					break
				}
				// whatever reached evil is bounced back unchanged into the start of the loop
				for _, d := range m.recvd["evil"] {
					if hd, ok := parseData(d); ok && hd.ToSvc == "rcv" {
						bounces++
						if three {
							ev2.inject(d)
						} else {
							ev.inject(d)
						}
						synctest.Wait()
						moved = true
					}
				}
				m.recvd["evil"] = nil
				if !moved {
					break
				}
			}
			synctest.Wait()
			time.Sleep(time.Second)
			synctest.Wait()
			close(done)
			synctest.Wait()
			ctx := fmt.Sprintf("loop(three=%v) budget %d", three, h)
			out.count("loop_sends", 1)
			if forwards > h {
				out.violate("hop:loop-forwarded-more-than-budget", "%s: real nodes forwarded the datagram %d times (bounced %d times)", ctx, forwards, bounces)
			}
			if h > 0 && forwards != h {
				out.violate("hop:loop-forward-count", "%s: %d forwards (%d bounces), expected the whole budget to be used up in the loop; routes of a: %v", ctx, forwards, bounces, m.nodes["a"].Status().RoutingTable)
			}
			if len(notices) != 1 || notices[0].Problem != netceptor.ProblemExpiredInTransit {
				out.violate("hop:loop-no-expiry-notice", "%s: notices %+v", ctx, notices)
			}
			pc.Close()
			synctest.Wait()
		}
		// Datagrams whose claimed origin is itself behind the loop: the expiry report travels the loop too and
		// has its own budget; reports about reports are never made, so everything comes to rest.
		if m.nodes["a"].Status().RoutingTable["ghost2"] == "" {
			out.violate("harness:c10-loop-setup", "a has no route to the second phantom node: %v", m.nodes["a"].Status().RoutingTable)
		}
		entry := ev
		if three {
			entry = ev2
		}
		for _, h := range budgets {
			if h > 40 && h != 255 && h%64 != 0 {
				continue
			}
			for _, kind := range []string{"data", "unreach"} {
				refresh()
				m.recvd = map[string][][]byte{}
				var pkt []byte
				if kind == "data" {
					pkt = mkData(byte(h), "ghost2", "ghost", "snd", "rcv", []byte("LOOP2"))
				} else {
					pkt = mkData(byte(h), "ghost2", "ghost", "unreach", "unreach", []byte(`{"FromNode":"ghost","ToNode":"ghost2","FromService":"x","ToService":"y","Problem":"test"}`))
				}
				entry.inject(pkt)
				synctest.Wait()
				fw := map[string]int{}
				capped := true
				for i := 0; i < 3000; i++ {
					moved := false
					for _, k := range m.sortedLinks() {
						sk := m.sess[k]
						if sk.pending() == 0 {
							continue
						}
						sk.mu.Lock()
						d := sk.outbox[0].data
						sk.mu.Unlock()
						if hd, ok := parseData(d); ok {
							fw[hd.ToSvc]++
						}
						m.deliverAt(k, 0)
						moved = true
						break
					}
					for _, d := range m.recvd["evil"] {
						if _, ok := parseData(d); ok {
							entry.inject(d)
							synctest.Wait()
							moved = true
						}
					}
					m.recvd["evil"] = nil
					if !moved {
						capped = false
						break
					}
				}
				ctx := fmt.Sprintf("loop(three=%v) phantom origin, %s packet, budget %d", three, kind, h)
				out.count("loop_sends", 1)
				total := 0
				for _, n := range fw {
					total += n
				}
				if capped {
					out.violate("hop:loop-never-ends", "%s: still being forwarded after 3000 steps (forwards by service: %v)", ctx, fw)
				} else {
					if kind == "data" && fw["rcv"] > h {
						out.violate("hop:loop-forwarded-more-than-budget", "%s: forwarded %d times", ctx, fw["rcv"])
					}
					limit := 30 // the report's own budget
					if kind == "unreach" {
						limit = h
					}
					if fw["unreach"] > limit {
						out.violate("hop:loop-report-forwarded-more-than-budget", "%s: the unreachable report was forwarded %d times, its budget is %d", ctx, fw["unreach"], limit)
					}
				}
				// drain whatever is left so that the next experiment starts clean
				for i := 0; i < 50 && m.inflight() > 0; i++ {
					for _, k := range m.sortedLinks() {
						if m.sess[k].pending() > 0 {
							m.sess[k].take(0)
						}
					}
				}
				m.recvd["evil"] = nil
			}
		}
		m.end()
	})
	out.Outcome = fmt.Sprintf("loop three=%v", three)
	return out
}

// runC10DeadEnd: the budget runs out exactly at a node that cannot forward any further (the previous hop
// believes in a route that this node does not have): the sender is still told "message expired" by that node.
// a and b are real; a scripted peer at a makes a believe that a phantom node lies behind b.
func runC10DeadEnd(t *testing.T) CaseOut {
	var out CaseOut
	out.Nontrivial = true
	bubble(t, func(t *testing.T) {
		m := newMesh(defaultConsts, "a", "b")
		m.up("a", "b", 1)
		m.settle()
		ev := m.attach("a", "evil")
		ev.inject(mkRoute(wireRoute{NodeID: "evil", UpdateID: "e1", UpdateEpoch: 10, UpdateSequence: 1, Connections: map[string]float64{"a": 1}, ForwardingNode: "evil"}))
		synctest.Wait()
		m.settle()
		ev.inject(mkRoute(wireRoute{NodeID: "evil", UpdateID: "e2", UpdateEpoch: 10, UpdateSequence: 2, Connections: map[string]float64{"a": 1}, ForwardingNode: "evil"}))
		synctest.Wait()
		m.settle()
		bi := m.nodes["a"].VerifSnapshot().KnownNodes["b"]
		// a forged update "from b" (relayed by evil) that lists the phantom node, and the phantom node's own update
		ev.inject(mkRoute(wireRoute{NodeID: "b", UpdateID: "fb", UpdateEpoch: bi.Epoch, UpdateSequence: bi.Sequence + 1000, Connections: map[string]float64{"a": 1, "ghost": 1}, ForwardingNode: "evil"}))
		ev.inject(mkRoute(wireRoute{NodeID: "ghost", UpdateID: "g1", UpdateEpoch: 10, UpdateSequence: 1, Connections: map[string]float64{"b": 1}, ForwardingNode: "evil"}))
		synctest.Wait()
		m.settle()
		if nh := m.nodes["a"].Status().RoutingTable["ghost"]; nh != "b" {
			out.violate("harness:c10-deadend-setup", "a routes the phantom node via %q: %v", nh, m.nodes["a"].Status().RoutingTable)
			m.end()
			return
		}
		if nh, ok := m.nodes["b"].Status().RoutingTable["ghost"]; ok {
			out.violate("harness:c10-deadend-setup", "b has a route to the phantom node (via %s)", nh)
			m.end()
			return
		}
		for _, h := range []int{0, 1, 2, 3} {
			pc, _ := m.nodes["a"].ListenPacket("snd")
			pc.SetHopsToLive(byte(h))
			done := make(chan struct{})
			nch := pc.SubscribeUnreachable(done)
			var notices []netceptor.UnreachableNotification
			go func() {
				for n := range nch {
					notices = append(notices, n)
				}
			}()
			synctest.Wait()
			pc.WriteTo([]byte("DEADEND"), m.nodes["a"].NewAddr("ghost", "rcv"))
			synctest.Wait()
			m.settle()
			time.Sleep(time.Second)
			synctest.Wait()
			close(done)
			synctest.Wait()
			ctx := fmt.Sprintf("dead end (a believes ghost lies behind b, b has no route) budget %d", h)
			out.count("deadend_sends", 1)
			want := ""
			switch h {
			case 0:
				want = "a"
			case 1:
				want = "b"
			}
			if want != "" {
				if len(notices) != 1 || notices[0].Problem != netceptor.ProblemExpiredInTransit || notices[0].ReceivedFromNode != want {
					out.violate("hop:deadend-no-expiry-notice", "%s: expected one `message expired` notice from %s, got %+v", ctx, want, notices)
				} else if n := notices[0]; n.FromNode != "a" || n.FromService != "snd" || n.ToNode != "ghost" || n.ToService != "rcv" {
					out.violate("hop:expiry-notice-fields", "%s: notice %+v does not name the original packet", ctx, n)
				}
			} else {
				for _, n := range notices {
					if n.Problem == netceptor.ProblemExpiredInTransit {
						out.violate("hop:expired-with-budget-left", "%s: %+v", ctx, n)
					}
				}
			}
			pc.Close()
			synctest.Wait()
		}
		m.end()
	})
	out.Outcome = "dead-end"
	return out
}

func runC10(w *W) {
	w.Case("dead end behind a believed route", func() CaseOut { return runC10DeadEnd(w.T) })
	for _, tp := range c10Topos() {
		tp := tp
		w.Case("topo "+tp.Name, func() CaseOut {
			o := runC10Topo(w.T, tp, nil)
			o.Sample = map[string]any{"topology": tp.Name, "sends": o.Counters["sends"], "traceroutes": o.Counters["traceroutes"]}
			return o
		})
	}
	if w.Thorough() {
		// every budget 0..255 on the 4-chain, in slices so that the cases stay short
		for lo := 0; lo < 256; lo += 32 {
			var bs []int
			for h := lo; h < lo+32; h++ {
				bs = append(bs, h)
			}
			tp := c10Topos()[2]
			w.Case(fmt.Sprintf("topo %s budgets %d..%d", tp.Name, lo, lo+31), func() CaseOut { return runC10Topo(w.T, tp, bs) })
		}
	}
	step := 8
	if w.Thorough() {
		step = 1
	}
	for _, three := range []bool{false, true} {
		for lo := 0; lo < 256; lo += 64 {
			var bs []int
			for h := lo; h < lo+64; h++ {
				if h%step == 0 || h < 6 || h == 255 {
					bs = append(bs, h)
				}
			}
			w.Case(fmt.Sprintf("loop three=%v budgets %d..%d step %d", three, lo, lo+63, step), func() CaseOut { return runC10Loop(w.T, three, bs) })
		}
	}
}

var _ = strings.Join

func init() {
	register(&PropSpec{
		ID:        "C10",
		Level:     "model_checking",
		Technique: "exhaustive enumeration of (topology, source, destination, hop budget) on converged real nodes in a synctest bubble with harness-owned links that see every datagram, plus forwarding loops built by a scripted peer; oracle from the statement",
		Rule: "6 converged topologies (chains of 2-4, triangle and square with unequal costs, star) x every ordered pair x every budget 0..d+2 and 255 (thorough: 0..255 on the 4-chain): marked datagram, Ping and Traceroute; 2- and 3-node forwarding loops through a phantom route with budgets 0..255 (quick: every 8th plus 0..5 and 255), with the datagram sent by a real node and, for budgets <=40, 64k and 255, with a datagram and with an unreachable report whose claimed origin is a second phantom node behind the loop (so that the expiry report circulates too). " +
			"A case is one topology (or one slice of loop budgets); counters.sends / loop_sends / traceroutes count the individual experiments, all of them distinct and non-trivial.",
		Assumptions: []string{"links deliver in FIFO order (the property does not depend on ordering)", "a bouncing peer returns packets unchanged; a peer that re-writes the hop count creates new packets and is outside the statement"},
		Run:         runC10,
		CaseTimeout: 120 * time.Second,
	})
}
