package harness

import (
	"crypto/rand"
	"crypto/rsa"
	"crypto/x509"
	"encoding/base64"
	"encoding/json"
	"encoding/pem"
	"fmt"
	"os"
	"path/filepath"
	"strings"
	"sync"
	"testing"
	"testing/synctest"
	"time"

	"github.com/ansible/receptor/pkg/workceptor"
	"github.com/golang-jwt/jwt/v4"
)

// C15 — signature-protected work cannot be driven remotely without a valid token.

var (
	c15Once          sync.Once
	c15Key, c15Other *rsa.PrivateKey
	c15PubPEM        []byte
)

func c15Keys() {
	c15Once.Do(func() {
		c15Key, _ = rsa.GenerateKey(rand.Reader, 2048)
		c15Other, _ = rsa.GenerateKey(rand.Reader, 2048)
		der, _ := x509.MarshalPKIXPublicKey(&c15Key.PublicKey)
		c15PubPEM = pem.EncodeToMemory(&pem.Block{Type: "PUBLIC KEY", Bytes: der})
	})
}

var c15Tokens = []string{"absent", "empty", "garbage", "valid", "valid-rs256", "expired", "other-audience", "multi-audience-incl", "other-key", "alg-none", "hs256-pubkey", "truncated", "tampered-payload", "no-exp", "nbf-future", "no-audience", "empty-audience-list", "blank-audience", "audience-prefix", "audience-case"}

func c15Token(kind, node string) (tok string, present bool) {
	c15Keys()
	claims := func(exp time.Duration, aud ...string) *jwt.RegisteredClaims {
		c := &jwt.RegisteredClaims{Audience: aud}
		if exp != 0 {
			c.ExpiresAt = jwt.NewNumericDate(time.Now().Add(exp))
		}
		return c
	}
	sign := func(m jwt.SigningMethod, c jwt.Claims, key interface{}) string {
		s, err := jwt.NewWithClaims(m, c).SignedString(key)
		if err != nil {
			panic(err)
		}
		return s
	}
	switch kind {
	case "absent":
		return "", false
	case "empty":
		return "", true
	case "garbage":
		return "not.a.token", true
	case "valid":
		return sign(jwt.SigningMethodRS512, claims(5*time.Minute, node), c15Key), true
	case "valid-rs256":
		return sign(jwt.SigningMethodRS256, claims(5*time.Minute, node), c15Key), true
	case "expired":
		return sign(jwt.SigningMethodRS512, claims(-5*time.Minute, node), c15Key), true
	case "other-audience":
		return sign(jwt.SigningMethodRS512, claims(5*time.Minute, "othernode"), c15Key), true
	case "multi-audience-incl":
		return sign(jwt.SigningMethodRS512, claims(5*time.Minute, "othernode", node), c15Key), true
	case "other-key":
		return sign(jwt.SigningMethodRS512, claims(5*time.Minute, node), c15Other), true
	case "alg-none":
		return sign(jwt.SigningMethodNone, claims(5*time.Minute, node), jwt.UnsafeAllowNoneSignatureType), true
	case "hs256-pubkey":
		return sign(jwt.SigningMethodHS256, claims(5*time.Minute, node), c15PubPEM), true
	case "truncated":
		t := sign(jwt.SigningMethodRS512, claims(5*time.Minute, node), c15Key)
		return t[:len(t)-20], true
	case "tampered-payload":
		t := sign(jwt.SigningMethodRS512, claims(5*time.Minute, "othernode"), c15Key)
		parts := strings.Split(t, ".")
		pl, _ := json.Marshal(claims(5*time.Minute, node))
		parts[1] = base64.RawURLEncoding.EncodeToString(pl)
		return strings.Join(parts, "."), true
	case "no-audience":
		return sign(jwt.SigningMethodRS512, claims(5*time.Minute), c15Key), true
	case "empty-audience-list":
		return sign(jwt.SigningMethodRS512, jwt.MapClaims{"aud": []string{}, "exp": time.Now().Add(5 * time.Minute).Unix()}, c15Key), true
	case "blank-audience":
		return sign(jwt.SigningMethodRS512, claims(5*time.Minute, ""), c15Key), true
	case "audience-prefix":
		return sign(jwt.SigningMethodRS512, claims(5*time.Minute, node+"x", node[:len(node)-1]), c15Key), true
	case "audience-case":
		return sign(jwt.SigningMethodRS512, claims(5*time.Minute, strings.ToUpper(node)), c15Key), true
	case "no-exp":
		return sign(jwt.SigningMethodRS512, claims(0, node), c15Key), true
	case "nbf-future":
		c := claims(5*time.Minute, node)
		c.NotBefore = jwt.NewNumericDate(time.Now().Add(time.Hour))
		return sign(jwt.SigningMethodRS512, c, c15Key), true
	}
	panic(kind)
}

// tokenAcceptable: correctly signed by the configured key, unexpired, addressed to this node.
// "either" marks cases the statement leaves open.
func c15TokenVerdict(kind string) string {
	switch kind {
	case "valid", "valid-rs256", "multi-audience-incl":
		return "accept"
	case "no-exp":
		return "either"
	}
	return "reject"
}

type c15Case struct {
	Cmd   string // submit cancel release force-release results
	Conn  string // unix tcp mesh
	Type  string // signed plain remote-signed remote-plain unknown
	Token string
	Sign  string // submit only: the signwork field: "" absent, "true", "false"
	Replay bool  // the token (valid for 5 minutes) was accepted once for another command; 12 virtual minutes later it is presented again
}

func runC15Case(t *testing.T, c c15Case) CaseOut {
	var out CaseOut
	out.Nontrivial = true
	c15Keys()
	bubble(t, func(t *testing.T) {
		e := newCtlEnv("n1", []workTypeSpec{{"signed", "hold", true}, {"plain", "hold", false}})
		defer e.close()
		keyFile := filepath.Join(e.dir, "verify.pem")
		os.WriteFile(keyFile, c15PubPEM, 0o600)
		e.w.VerifyingKey = keyFile
		switch c.Conn {
		case "unix":
			e.addrNet = "unix"
		case "tcp":
			e.addrNet = "tcp"
		case "mesh":
			e.addrNet = "netceptor-n1"
		case "mesh-unixname":
			// a mesh stream's network name carries the local node ID: "netceptor-<id>"; an ID that happens to contain
			// "unix" does not make the connection a local Unix socket
			e.addrNet = "netceptor-unix-n1"
		case "unixgram-like":
			e.addrNet = "tcp-unix"
		}
		// the unit the command refers to
		var unit workceptor.WorkUnit
		var err error
		if c.Cmd != "submit" {
			switch c.Type {
			case "signed", "plain":
				unit, err = e.w.AllocateUnit(c.Type, nil)
				if err == nil {
					os.WriteFile(filepath.Join(unit.UnitDir(), "stdin"), []byte("x"), 0o600)
					unit.Start()
				}
			case "remote-signed":
				unit, err = e.w.AllocateRemoteUnit("othernode", "plain", "", "", true, nil)
			case "remote-plain":
				unit, err = e.w.AllocateRemoteUnit("othernode", "plain", "", "", false, nil)
			case "unknown":
				out.Outcome = "n/a"
				return
			}
			if err != nil {
				out.violate("harness:c15-setup", "setup: %v", err)
				return
			}
		}
		e.events = nil
		before := len(e.w.ListKnownUnitIDs())
		tok, present := c15Token(c.Token, "n1")
		if c.Replay {
			// first use: a submission to the verifying type with the still valid token
			first := map[string]interface{}{"command": "work", "subcommand": "submit", "node": "n1", "worktype": "signed", "signature": tok}
			line, _ := json.Marshal(first)
			if s0, err := e.open(); err == nil {
				s0.send(append(line, '\n'))
				r0, _ := s0.readLine(60 * time.Second)
				if strings.HasPrefix(r0, "Work unit created") {
					s0.send([]byte("x\n"))
					s0.closeWrite()
					s0.readLine(60 * time.Second)
				} else {
					out.violate("sig:legitimate-command-refused:first-use-before-replay", "%+v: the first use of the valid token was refused: %q", c, trunc(r0, 100))
				}
				s0.close()
			}
			time.Sleep(12 * time.Minute)
			synctest.Wait()
			e.events = nil
			before = len(e.w.ListKnownUnitIDs())
		}
		req := map[string]interface{}{"command": "work", "subcommand": c.Cmd}
		if present {
			req["signature"] = tok
		}
		switch c.Cmd {
		case "submit":
			switch c.Type {
			case "signed", "plain":
				req["node"] = "n1"
				req["worktype"] = c.Type
			case "remote-signed":
				req["node"] = "othernode"
				req["worktype"] = "signed"
			case "remote-plain":
				req["node"] = "othernode"
				req["worktype"] = "plain"
			case "unknown":
				req["node"] = "n1"
				req["worktype"] = "nosuchtype"
			}
		case "results":
			req["unitid"] = unit.ID()
			req["startpos"] = 0
		default:
			req["unitid"] = unit.ID()
		}
		switch c.Sign {
		case "true", "false":
			req["signwork"] = c.Sign
		case "bool-true":
			req["signwork"] = true
		}
		line, _ := json.Marshal(req)
		s, err := e.open()
		if err != nil {
			out.violate("harness:c15-open", "%v", err)
			return
		}
		s.send(append(line, '\n'))
		reply, rerr := s.readLine(60 * time.Second)
		if c.Cmd == "submit" && strings.HasPrefix(reply, "Work unit created") {
			s.send([]byte("stdin\n"))
			s.closeWrite()
			s.readLine(60 * time.Second)
		}
		s.close()
		time.Sleep(2 * time.Second)
		synctest.Wait()
		// what happened
		effect := false
		switch c.Cmd {
		case "submit":
			effect = len(e.w.ListKnownUnitIDs()) > before || strings.HasPrefix(reply, "Work unit created")
		case "cancel":
			if su, ok := unit.(*scriptedUnit); ok {
				effect = su.canceled > 0
			} else {
				st := unit.UnredactedStatus()
				red, _ := st.ExtraData.(*workceptor.RemoteExtraData)
				effect = (red != nil && red.LocalCancelled) || strings.Contains(reply, "cancel")
			}
		case "release", "force-release":
			if su, ok := unit.(*scriptedUnit); ok {
				effect = su.released > 0
			}
			if _, err := os.Stat(unit.UnitDir()); os.IsNotExist(err) {
				effect = true
			}
			known := false
			for _, id := range e.w.ListKnownUnitIDs() {
				if id == unit.ID() {
					known = true
				}
			}
			if !known {
				effect = true
			}
		case "results":
			effect = strings.HasPrefix(reply, "Streaming results")
		}
		// the statement
		verifying := c.Type == "signed" || c.Type == "remote-signed"
		if c.Cmd == "submit" && c.Type == "remote-signed" {
			verifying = true // the submitted work type "signed" is registered locally as verifying
		}
		var want string // "effect", "refused", "either"
		switch {
		case c.Cmd == "submit" && c.Type == "unknown":
			want = "refused"
		case !verifying:
			if present && tok != "" {
				want = "refused" // token sent to a type that does not expect one
			} else {
				want = "effect"
			}
		case c.Conn == "unix":
			want = "effect"
		case c.Replay:
			want = "refused" // it has expired meanwhile
		default:
			switch c15TokenVerdict(c.Token) {
			case "accept":
				want = "effect"
			case "either":
				want = "either"
			default:
				want = "refused"
			}
		}
		if !verifying && present && tok == "" && !(c.Cmd == "submit" && c.Type == "unknown") {
			want = "effect" // an empty token is no token
		}
		out.Outcome = fmt.Sprintf("%s/%s want=%s effect=%v", c.Cmd, c.Type, want, effect)
		if want == "refused" && effect {
			out.violate(fmt.Sprintf("sig:effect-without-valid-token:%s:%s:%s:signwork=%s%s", c.Cmd, c.Type, c.Token, c.Sign, map[bool]string{true: ":replayed-after-expiry", false: ""}[c.Replay]), "%+v: the command must be refused but took effect (reply %q)", c, trunc(reply, 100))
		}
		if want == "refused" && !strings.HasPrefix(reply, "ERROR") {
			out.violate(fmt.Sprintf("sig:not-refused:%s:%s:%s", c.Cmd, c.Type, c.Token), "%+v: expected an ERROR reply, got %q (%v)", c, trunc(reply, 100), rerr)
		}
		if want == "effect" && !effect {
			out.violate(fmt.Sprintf("sig:legitimate-command-refused:%s:%s:%s:%s", c.Cmd, c.Type, c.Conn, c.Token), "%+v: the command is legitimate but had no effect (reply %q)", c, trunc(reply, 100))
		}
	})
	return out
}

func runC15(w *W) {
	c15ReplayCases(w)
	for _, cmd := range []string{"submit", "cancel", "release", "force-release", "results"} {
		for _, conn := range []string{"unix", "tcp", "mesh", "mesh-unixname", "unixgram-like"} {
			for _, typ := range []string{"signed", "plain", "remote-signed", "remote-plain", "unknown"} {
				if strings.Contains(conn, "-") && typ != "signed" && typ != "remote-signed" {
					continue
				}
				if cmd == "results" && strings.HasPrefix(typ, "remote") {
					continue // results of a never-started remote unit do not terminate; covered by C05
				}
				for _, tok := range c15Tokens {
					for _, sign := range []string{"", "true", "false"} {
						if sign != "" && cmd != "submit" {
							continue
						}
						c := c15Case{Cmd: cmd, Conn: conn, Type: typ, Token: tok, Sign: sign}
						c15One(w, c)
					}
				}
			}
		}
	}
}

func c15ReplayCases(w *W) {
	for _, cmd := range []string{"submit", "cancel", "release", "force-release", "results"} {
		for _, conn := range []string{"tcp", "mesh"} {
			for _, tok := range []string{"valid", "valid-rs256", "multi-audience-incl"} {
				c15One(w, c15Case{Cmd: cmd, Conn: conn, Type: "signed", Token: tok, Replay: true})
			}
		}
	}
}

func c15One(w *W, c c15Case) {
	w.Case(fmt.Sprintf("%+v", c), func() CaseOut {
		o := runC15Case(w.T, c)
		if c.Token == "alg-none" && c.Conn == "tcp" {
			o.Sample = map[string]any{"case": c, "outcome": o.Outcome}
		}
		return o
	})
}

func init() {
	register(&PropSpec{
		ID:        "C15",
		Level:     "exploration",
		Technique: "exhaustive enumeration of command x connection kind x work type x token through the real RunControlSession/Workceptor with recording in-process work units; decision compared with the statement",
		Rule: "5 commands x {unix, tcp, mesh address, mesh address of a node whose ID contains 'unix', 'tcp-unix'} x {verifying, non-verifying, remote with/without signing, unknown} x 20 tokens (absent, empty, garbage, valid RS512, valid RS256, expired, other audience, several audiences incl. this node, other key, alg none, HS256 keyed with the public key PEM, truncated, payload swapped under a valid signature, no exp, not-before in the future, no audience claim, empty audience list, blank audience, audiences that extend / shorten / upper-case the node ID). " +
			"submit additionally with the signwork field absent, \"true\" or \"false\" (it asks for relayed work to be signed and must not influence whether the submission itself is verified). Replay: a token that was accepted once is presented again 12 virtual minutes later (5 commands x tcp/mesh x 3 valid token kinds) and must be refused as expired. Tokens the node creates itself: a real daemon (signing key, token lifetime 3 s) relays every sequence of <=2 (and those of 3 ending in a signed one; thorough: all of 3) submissions from {signed, signed with ttl=1h, unsigned} to a recording stand-in for the control service on a real second node: each token verifies with the configured key, names the target node, and expires within the configured lifetime. Every combination is a distinct case; all are non-trivial. Effect = unit created / Cancel or Release reached the unit / unit removed / result stream started.",
		Assumptions: []string{"a token without exp is left open by the statement (either outcome accepted)", "a submit names the verifying type by its local registration"},
		Run:         runC15,
		Exec:        execC15,
		Coord:       coordC15,
		CaseTimeout: 90 * time.Second,
	})
}
