package harness

import (
	"crypto/sha256"
	"encoding/hex"
	"fmt"
	"os"
	"sort"
	"strings"
	"sync"
	"testing/synctest"
	"time"
)

// Deviation-bounded depth-first exploration of one scenario (DESIGN §3.1).
//
// An execution is driven by a list of choice labels (the prefix); at every later choice point the
// default option (index 0) is taken. After an execution every alternative at every point past the
// prefix becomes a new prefix, as long as the number of non-default choices stays within the bound.
// Choices are recorded by label; a label that is not enabled while replaying is a divergence (counted,
// never reported as a violation).

type chPoint struct {
	opts   []string
	chosen int
	free   bool // a non-default pick here costs no deviation (e.g. the running thread blocked: any switch is free)
}

type xrun struct {
	prefix   []string
	points   []chPoint
	diverged string
	seen     map[string]bool // global visited-state set (shared across executions of one scenario)
	pruned   bool
	pruneAt  int
	steps    int
	newKeys  int
	devs     int
}

// chooseFree is choose for a point whose alternatives cost no deviation.
func (r *xrun) chooseFree(opts []string) string { return r.chooseC(opts, true) }

// choose returns the label to take at this choice point; opts[0] is the default.
func (r *xrun) choose(opts []string) string { return r.chooseC(opts, false) }

func (r *xrun) chooseC(opts []string, free bool) string {
	i := len(r.points)
	pick := 0
	if i < len(r.prefix) {
		pick = -1
		for j, o := range opts {
			if o == r.prefix[i] {
				pick = j
			}
		}
		if pick < 0 {
			r.diverged = fmt.Sprintf("at point %d label %q not enabled among %v", i, r.prefix[i], opts)
			pick = 0
		}
	}
	if pick != 0 && !free {
		r.devs++
	}
	r.points = append(r.points, chPoint{opts: append([]string(nil), opts...), chosen: pick, free: free})
	return opts[pick]
}

// visit records a state key at the current position. It returns true when the state was already
// explored (from this or another execution) at a position past the prefix: the rest of this execution
// repeats something already covered and may be abandoned.
func (r *xrun) visit(key string) bool {
	if r.seen == nil {
		return false
	}
	k := fmt.Sprintf("%d|%s", r.devs, key)
	if r.seen[k] {
		if len(r.points) >= len(r.prefix) && !r.pruned {
			r.pruned = true
			r.pruneAt = len(r.points)
			return true
		}
		return false
	}
	r.seen[k] = true
	r.newKeys++
	return false
}

func (r *xrun) labels() []string {
	l := make([]string, len(r.points))
	for i, p := range r.points {
		l[i] = p.opts[p.chosen]
	}
	return l
}

type xstats struct {
	Executions  int
	States      int
	Transitions int
	Diverged    int
	Pruned      int
	MaxPoints   int
	Capped      bool
	BoundDone   int
}

type xviol struct {
	Violation
	Schedule []string
}

// exploreDFS explores one scenario. run executes the scenario once under the given xrun and returns
// the violations it saw. bound is the deviation bound; maxExec and deadline cap the search (a capped
// search reports Capped=true — never "exhaustive").
func exploreDFS(bound int, maxExec int, deadline time.Time, only []string, beat func(), part, parts int, run func(r *xrun) []Violation) (xstats, []xviol) {
	var st xstats
	var viols []xviol
	seenKeys := map[string]bool{}
	if only != nil {
		r := &xrun{prefix: only}
		vs := run(r)
		st.Executions = 1
		st.Transitions = r.steps
		for _, v := range vs {
			viols = append(viols, xviol{v, r.labels()})
		}
		if r.diverged != "" {
			st.Diverged++
		}
		return st, viols
	}
	// iterate the bound so that the first counter-example has the fewest deviations
	for b := 0; b <= bound; b++ {
		seen := map[string]bool{}
		stack := [][]string{nil}
		complete := true
		rootChild := 0
		for len(stack) > 0 {
			if st.Executions >= maxExec || time.Now().After(deadline) {
				st.Capped = true
				complete = false
				break
			}
			prefix := stack[len(stack)-1]
			stack = stack[:len(stack)-1]
			if os.Getenv("VERIF_TRACE") != "" {
				fmt.Fprintf(os.Stderr, "SCHEDULE %q\n", prefix)
			}
			r := &xrun{prefix: prefix, seen: seen}
			if beat != nil {
				beat()
			}
			vs := run(r)
			st.Executions++
			st.Transitions += r.steps
			if len(r.points) > st.MaxPoints {
				st.MaxPoints = len(r.points)
			}
			if r.diverged != "" {
				// retry once; a prefix that cannot be replayed is skipped and counted
				r2 := &xrun{prefix: prefix, seen: nil}
				vs2 := run(r2)
				if r2.diverged != "" {
					st.Diverged++
					continue
				}
				r, vs = r2, vs2
			}
			if r.pruned {
				st.Pruned++
			}
			for _, v := range vs {
				viols = append(viols, xviol{v, r.labels()})
			}
			for k := range r.seen {
				_ = k
			}
			lim := len(r.points)
			if r.pruned && r.pruneAt < lim {
				lim = r.pruneAt
			}
			devs := 0
			for i := 0; i < lim; i++ {
				if i >= len(prefix) {
					cost := 1
					if r.points[i].free {
						cost = 0
					}
					if devs+cost <= b {
						for alt := len(r.points[i].opts) - 1; alt >= 1; alt-- {
							if len(prefix) == 0 && parts > 1 {
								// the first-level subtrees of a scenario are dealt round-robin to its parts
								rootChild++
								if rootChild%parts != part {
									continue
								}
							}
							np := make([]string, 0, i+1)
							for j := 0; j < i; j++ {
								np = append(np, r.points[j].opts[r.points[j].chosen])
							}
							np = append(np, r.points[i].opts[alt])
							stack = append(stack, np)
						}
					}
				}
				if r.points[i].chosen != 0 && !r.points[i].free {
					devs++
				}
			}
		}
		for k := range seen {
			seenKeys[stripDev(k)] = true
		}
		if complete {
			st.BoundDone = b
		} else {
			break
		}
		if len(viols) > 0 {
			break // report the counter-example with the fewest deviations
		}
	}
	st.States = len(seenKeys)
	return st, viols
}

func stripDev(k string) string {
	if i := strings.IndexByte(k, '|'); i >= 0 {
		return k[i+1:]
	}
	return k
}

func hashKey(parts ...string) string {
	h := sha256.New()
	for _, p := range parts {
		h.Write([]byte(p))
		h.Write([]byte{0})
	}
	return hex.EncodeToString(h.Sum(nil)[:12])
}

// ---- mesh settle phase under the explorer ------------------------------------------------------------

type settleOpts struct {
	canFireNext bool   // offer "next-event" (the following scenario event happens before the flood has settled)
	ctx         string // part of the state key: which scenario phase we are in
	monitor     func() // invariant check at every quiescent point
	noHold      bool
	bag         bool                          // any in-flight message of a link may be delivered (not only the head batch)
	faults      bool                          // offer dup / drop of in-flight messages and replay of delivered ones
	noTick      bool                          // do not offer an early timer tick
	pre, post   func(link string, msg []byte) // called around every delivery
	history     map[string][][]byte           // delivered messages per link (for replay), kept by the caller across phases
	maxIter     int
	held        map[string]bool       // links held back; owned by the caller so that a hold can span scenario events
	auto        func(msg []byte) bool // messages that are delivered right away in canonical order (no choice point)
	keepHeld    bool                  // at quiescence offer to keep the held links into the next event
	pairs       bool                  // offer the concurrent delivery of the heads of two links that end at the same node
	pairDone    func(l1, l2 string)   // called after a concurrent delivery
}

// deliverable returns, per eligible link, the canonical labels of the messages that may be delivered next.
func (m *mesh) deliverable(held map[string]bool, bag bool) (links []string, labels map[string][]string, index map[string]int) {
	labels = map[string][]string{}
	index = map[string]int{}
	for _, k := range m.sortedLinks() {
		s := m.sess[k]
		if held[k] || s.pending() == 0 {
			continue
		}
		s.mu.Lock()
		head := s.outbox[0].batch
		seenL := map[string]bool{}
		var ls []string
		for i, q := range s.outbox {
			if !bag && q.batch != head {
				break
			}
			l := "d " + k + " " + m.canonMsg(q.data)
			if !seenL[l] {
				seenL[l] = true
				ls = append(ls, l)
				index[l] = i
			}
		}
		s.mu.Unlock()
		sort.Strings(ls)
		links = append(links, k)
		labels[k] = ls
	}
	return
}

func (m *mesh) stateKey(held map[string]bool, sinceTick map[string][]string, ctx string) string {
	var parts []string
	parts = append(parts, ctx)
	for _, n := range m.names {
		if m.scripted[n] {
			continue
		}
		parts = append(parts, m.nodeState(n))
		l := append([]string(nil), sinceTick[n]...)
		sort.Strings(l)
		parts = append(parts, strings.Join(l, ";"))
	}
	for _, k := range m.sortedLinks() {
		h := ""
		if held[k] {
			h = "H"
		}
		parts = append(parts, h+m.linkState(k))
	}
	sl := make([]string, 0)
	for k := range m.silent {
		sl = append(sl, k)
	}
	sort.Strings(sl)
	parts = append(parts, strings.Join(sl, ","))
	return hashKey(parts...)
}

// exploreSettle runs the message flow to quiescence under the explorer. It returns "next" when the
// explorer chose to fire the next scenario event early, "pruned" when the state was already covered,
// and "" when the mesh is quiet.
func (m *mesh) exploreSettle(r *xrun, o settleOpts) string {
	held := o.held
	if held == nil {
		held = map[string]bool{}
	}
	sinceTick := map[string][]string{}
	maxIter := o.maxIter
	if maxIter == 0 {
		maxIter = 600
	}
	m.step++ // whatever the preceding event emitted forms its own batch
	deliver := func(k string, data []byte, lbl string) {
		dst := strings.Split(k, ">")[1]
		sinceTick[dst] = append(sinceTick[dst], lbl)
		s := m.sess[k]
		if s == nil || m.isSilent(s.from, s.to) || s.isClosed() {
			m.step++
			r.steps++
			return // black-holed: nothing reaches the receiver
		}
		if o.pre != nil {
			o.pre(k, data)
		}
		m.step++
		if s != nil && !m.isSilent(s.from, s.to) && !s.isClosed() {
			if m.scripted[s.to] {
				if m.recvd == nil {
					m.recvd = map[string][][]byte{}
				}
				m.recvd[s.to] = append(m.recvd[s.to], data)
			} else {
				s.inject(data)
				synctest.Wait()
			}
		}
		r.steps++
		if o.history != nil {
			h := append(o.history[k], data)
			if len(h) > 3 {
				h = h[len(h)-3:]
			}
			o.history[k] = h
		}
		if o.post != nil {
			o.post(k, data)
		}
	}
	for iter := 0; iter < maxIter; iter++ {
		if o.auto != nil {
			// deliver everything the scenario does not explore (canonical order), to quiescence
			for n := 0; n < 2000; n++ {
				moved := false
				for _, k := range m.sortedLinks() {
					s := m.sess[k]
					s.mu.Lock()
					idx := -1
					for i, q := range s.outbox {
						if o.auto(q.data) {
							idx = i
							break
						}
					}
					s.mu.Unlock()
					if idx >= 0 {
						m.deliverAt(k, idx)
						moved = true
					}
				}
				if !moved {
					break
				}
			}
		}
		links, labels, index := m.deliverable(held, o.bag)
		if len(links) == 0 {
			anyHeld := false
			for k := range held {
				if m.sess[k] != nil && m.sess[k].pending() > 0 {
					anyHeld = true
				}
			}
			if anyHeld {
				opts := []string{"release"}
				if o.canFireNext {
					opts = append(opts, "next-event")
				}
				c := r.choose(opts)
				if c == "next-event" {
					return "next"
				}
				for k := range held {
					delete(held, k)
				}
				continue
			}
			before := m.inflight()
			m.tick(150 * time.Millisecond)
			r.steps++
			sinceTick = map[string][]string{}
			if o.monitor != nil {
				o.monitor()
			}
			if before == 0 && m.inflight() == 0 {
				return ""
			}
			continue
		}
		ctx := o.ctx
		if o.history != nil {
			hk := make([]string, 0, len(o.history))
			for k := range o.history {
				hk = append(hk, k)
			}
			sort.Strings(hk)
			for _, k := range hk {
				ctx += "|" + k
				for _, d := range o.history[k] {
					ctx += ";" + m.canonMsg(d)
				}
			}
		}
		if r.visit(m.stateKey(held, sinceTick, ctx)) {
			return "pruned"
		}
		if o.pairs {
			// default order = oldest batch first (the flood advances as a wave, as it does when all links
			// have the same latency), so that the copies of one update that travel along different paths
			// are pending at their meeting point together
			age := map[string]int{}
			for _, k := range links {
				sk := m.sess[k]
				sk.mu.Lock()
				if len(sk.outbox) > 0 {
					age[k] = sk.outbox[0].batch
				}
				sk.mu.Unlock()
			}
			sort.SliceStable(links, func(i, j int) bool { return age[links[i]] < age[links[j]] })
		}
		var opts []string
		for _, k := range links {
			opts = append(opts, labels[k]...)
		}
		if !o.noHold {
			for _, k := range links {
				opts = append(opts, "hold "+k)
			}
		}
		if o.faults {
			for _, k := range links {
				for _, l := range labels[k] {
					opts = append(opts, "dup "+l, "drop "+l)
				}
			}
			hk := make([]string, 0, len(o.history))
			for k := range o.history {
				hk = append(hk, k)
			}
			sort.Strings(hk)
			for _, k := range hk {
				if m.sess[k] == nil || m.sess[k].isClosed() {
					continue
				}
				seenR := map[string]bool{}
				for i, d := range o.history[k] {
					l := fmt.Sprintf("replay %d %s %s", i, k, m.canonMsg(d))
					if !seenR[l] {
						seenR[l] = true
						opts = append(opts, l)
					}
				}
			}
		}
		if o.pairs {
			for i, k1 := range links {
				for _, k2 := range links[i+1:] {
					if strings.Split(k1, ">")[1] == strings.Split(k2, ">")[1] && !m.scripted[strings.Split(k1, ">")[1]] {
						for _, l1 := range labels[k1] {
							for _, l2 := range labels[k2] {
								opts = append(opts, "pair "+l1+" || "+l2)
							}
						}
					}
				}
			}
		}
		if !o.noTick {
			opts = append(opts, "tick")
		}
		if o.canFireNext {
			opts = append(opts, "next-event")
		}
		if dbg := os.Getenv("VERIF_DBGOPTS"); dbg != "" {
			f, _ := os.OpenFile(dbg, os.O_APPEND|os.O_CREATE|os.O_WRONLY, 0o644)
			fmt.Fprintf(f, "%s | %q\n", o.ctx, opts)
			f.Close()
		}
		if dbg := os.Getenv("VERIF_DBGPAIRS"); dbg != "" {
			f, _ := os.OpenFile(dbg, os.O_APPEND|os.O_CREATE|os.O_WRONLY, 0o644)
			for _, o := range opts {
				if strings.HasPrefix(o, "pair ") {
					fmt.Fprintln(f, o)
				}
			}
			f.Close()
		}
		c := r.choose(opts)
		switch {
		case c == "tick":
			m.tick(150 * time.Millisecond)
			r.steps++
			sinceTick = map[string][]string{}
		case c == "next-event":
			return "next"
		case strings.HasPrefix(c, "pair "):
			// both messages are handed over before the node gets to run; log statements are yield points
			parts := strings.SplitN(strings.TrimPrefix(c, "pair "), " || ", 2)
			var ds [][]byte
			var ss []*hSess
			for _, l := range parts {
				k := strings.SplitN(l, " ", 3)[1]
				sk := m.sess[k]
				ds = append(ds, sk.take(index[l]))
				ss = append(ss, sk)
				dst := strings.Split(k, ">")[1]
				sinceTick[dst] = append(sinceTick[dst], l)
			}
			m.step++
			logYield(true)
			var wg sync.WaitGroup
			for i := range ds {
				wg.Add(1)
				go func(i int) {
					defer wg.Done()
					ss[i].inject(ds[i])
				}(i)
			}
			wg.Wait()
			// the handlers sleep (virtually) at their yield points: let that time pass, a few milliseconds
			// at a time, until everybody is blocked for good
			for i := 0; i < 10; i++ {
				time.Sleep(2 * time.Millisecond)
				synctest.Wait()
			}
			logYield(false)
			r.steps += 2
			if o.pairDone != nil {
				o.pairDone(parts[0], parts[1])
			}
		case strings.HasPrefix(c, "hold "):
			held[strings.TrimPrefix(c, "hold ")] = true
		case strings.HasPrefix(c, "dup d "):
			l := strings.TrimPrefix(c, "dup ")
			k := strings.SplitN(l, " ", 3)[1]
			s := m.sess[k]
			s.mu.Lock()
			data := append([]byte(nil), s.outbox[index[l]].data...)
			s.mu.Unlock()
			deliver(k, data, c)
		case strings.HasPrefix(c, "drop d "):
			l := strings.TrimPrefix(c, "drop ")
			k := strings.SplitN(l, " ", 3)[1]
			m.sess[k].take(index[l])
			r.steps++
		case strings.HasPrefix(c, "replay "):
			f := strings.SplitN(c, " ", 4)
			var i int
			fmt.Sscan(f[1], &i)
			k := f[2]
			if i < len(o.history[k]) {
				deliver(k, append([]byte(nil), o.history[k][i]...), c)
			}
		default:
			k := strings.SplitN(c, " ", 3)[1]
			data := m.sess[k].take(index[c])
			deliver(k, data, c)
		}
		if o.monitor != nil {
			o.monitor()
		}
	}
	return "limit"
}
