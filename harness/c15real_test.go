package harness

import (
	"bufio"
	"context"
	"crypto/rand"
	"crypto/rsa"
	"crypto/x509"
	"encoding/json"
	"encoding/pem"
	"fmt"
	"io"
	"net"
	"os"
	"path/filepath"
	"strings"
	"sync"
	"time"

	"github.com/ansible/receptor/pkg/backends"
	"github.com/ansible/receptor/pkg/netceptor"
	"github.com/golang-jwt/jwt/v4"
)

// C15 (b) — the tokens a node creates itself when it relays signed work: a real daemon n1 (signing key, token
// lifetime 3 s) submits work to node n2, which is a real Netceptor node inside the harness process with a
// recording stand-in for the control service. Every token n1 sends is correctly signed by the configured key,
// addressed to n2 and expires within the configured lifetime — whatever was submitted before.

type c15RealArgs struct {
	Real bool
	Seq  []string // submissions in order: "signed", "signed-ttl" (ttl=1h), "plain"
}

func execC15Real(a c15RealArgs) CaseOut {
	var out CaseOut
	out.Nontrivial = true
	dir, err := os.MkdirTemp(scratchDir(), "c15r-")
	if err != nil {
		out.violate("harness:c15r-tmp", "%v", err)
		return out
	}
	defer os.RemoveAll(dir)
	key, _ := rsa.GenerateKey(rand.Reader, 2048)
	keyFile := filepath.Join(dir, "sign.pem")
	os.WriteFile(keyFile, pem.EncodeToMemory(&pem.Block{Type: "RSA PRIVATE KEY", Bytes: x509.MarshalPKCS1PrivateKey(key)}), 0o600)
	const lifetime = 3 * time.Second
	var d *daemon
	var port int
	for attempt := 0; attempt < 4 && d == nil; attempt++ {
		port = freePort()
		dd, err := startDaemon(dir, "n1", nil, "--work-signing", "privatekey="+keyFile, "tokenexpiration=3s", "--tcp-listener", fmt.Sprintf("port=%d", port), "bindaddr=127.0.0.1")
		if err == nil {
			d = dd
		} else if dd != nil {
			dd.kill()
		}
	}
	if d == nil {
		out.violate("harness:c15r-daemon", "daemon did not start")
		return out
	}
	defer d.kill()
	ctx, cancel := context.WithCancel(context.Background())
	defer cancel()
	n2 := netceptor.New(ctx, "n2")
	n2.Logger.SetOutput(io.Discard)
	defer n2.Shutdown()
	td, err := backends.NewTCPDialer(fmt.Sprintf("127.0.0.1:%d", port), true, nil, n2.Logger)
	if err != nil {
		out.violate("harness:c15r-dialer", "%v", err)
		return out
	}
	if err := n2.AddBackend(td); err != nil {
		out.violate("harness:c15r-backend", "%v", err)
		return out
	}
	li, err := n2.Listen("control", nil)
	if err != nil {
		out.violate("harness:c15r-listen", "%v", err)
		return out
	}
	type captured struct {
		at  time.Time
		req map[string]interface{}
	}
	var mu sync.Mutex
	var caps []captured
	unitN := 0
	go func() {
		for {
			c, err := li.Accept()
			if err != nil {
				return
			}
			go func(c net.Conn) {
				defer c.Close()
				fmt.Fprintf(c, "Receptor Control, node n2\n")
				r := bufio.NewReader(c)
				for {
					line, err := r.ReadString('\n')
					if err != nil {
						return
					}
					line = strings.TrimSpace(line)
					if strings.HasPrefix(line, "{") {
						var req map[string]interface{}
						if json.Unmarshal([]byte(line), &req) == nil && req["subcommand"] == "submit" {
							mu.Lock()
							caps = append(caps, captured{time.Now(), req})
							unitN++
							id := fmt.Sprintf("fake%04d", unitN)
							mu.Unlock()
							fmt.Fprintf(c, "Work unit created with ID %s. Send stdin data and EOF.\n", id)
							io.Copy(io.Discard, r) // stdin until the submitter half-closes
							fmt.Fprintf(c, "Job started\n")
							return
						}
						fmt.Fprintf(c, "{}\n")
						continue
					}
					switch {
					case strings.HasPrefix(line, "work status"):
						fmt.Fprintf(c, `{"State":2,"Detail":"done","StdoutSize":0,"WorkType":"w","ExtraData":null}`+"\n")
					case strings.HasPrefix(line, "work release"), strings.HasPrefix(line, "work cancel"):
						fmt.Fprintf(c, "{\"released\":\"x\"}\n")
					default:
						fmt.Fprintf(c, "ERROR: not in this stand-in\n")
					}
				}
			}(c)
		}
	}()
	if !d.waitRoute("n2", 15*time.Second) {
		out.violate("harness:c15r-route", "n1 never learned a route to n2")
		return out
	}
	want := 0
	for i, kind := range a.Seq {
		req := map[string]string{"command": "work", "subcommand": "submit", "node": "n2", "worktype": "w"}
		switch kind {
		case "signed":
			req["signwork"] = "true"
			want++
		case "signed-ttl":
			req["signwork"] = "true"
			req["ttl"] = "1h"
			want++
		}
		line, _ := json.Marshal(req)
		cc, err := d.dial(10 * time.Second)
		if err != nil {
			out.violate("harness:c15r-dial", "%v", err)
			return out
		}
		cc.c.SetDeadline(time.Now().Add(20 * time.Second))
		cc.c.Write(append(line, '\n'))
		l1, _ := cc.r.ReadString('\n')
		if strings.Contains(l1, "Work unit created") {
			cc.c.Write([]byte("input\n"))
			if uc, ok := cc.c.(*net.UnixConn); ok {
				uc.CloseWrite()
			}
			cc.r.ReadString('\n')
		} else {
			out.violate("harness:c15r-submit", "submission #%d (%s) answered %q", i, kind, trunc(l1, 100))
		}
		cc.c.Close()
		// wait until the remote side has seen this submission
		for dl := time.Now().Add(10 * time.Second); time.Now().Before(dl); time.Sleep(20 * time.Millisecond) {
			mu.Lock()
			n := len(caps)
			mu.Unlock()
			if n > i {
				break
			}
		}
	}
	mu.Lock()
	got := append([]captured(nil), caps...)
	mu.Unlock()
	if len(got) != len(a.Seq) {
		out.violate("harness:c15r-captured", "%d of %d submissions reached the remote node", len(got), len(a.Seq))
	}
	ctxs := fmt.Sprintf("submissions %v", a.Seq)
	for i, cp := range got {
		if i >= len(a.Seq) {
			break
		}
		kind := a.Seq[i]
		sig, _ := cp.req["signature"].(string)
		if kind == "plain" {
			continue
		}
		if sig == "" {
			out.violate("sig:created:missing", "%s: submission #%d (%s) reached n2 without a token", ctxs, i, kind)
			continue
		}
		claims := &jwt.RegisteredClaims{}
		_, err := jwt.ParseWithClaims(sig, claims, func(t *jwt.Token) (interface{}, error) {
			if t.Method.Alg() != "RS512" {
				return nil, fmt.Errorf("algorithm %s", t.Method.Alg())
			}
			return &key.PublicKey, nil
		})
		if err != nil {
			out.violate("sig:created:does-not-verify", "%s: the token of submission #%d (%s) does not verify with the configured key: %v", ctxs, i, kind, err)
			continue
		}
		if len(claims.Audience) != 1 || claims.Audience[0] != "n2" {
			out.violate("sig:created:audience", "%s: the token of submission #%d is addressed to %v, the work goes to n2", ctxs, i, claims.Audience)
		}
		if claims.ExpiresAt == nil {
			out.violate("sig:created:no-expiry", "%s: the token of submission #%d never expires", ctxs, i)
		} else if left := claims.ExpiresAt.Time.Sub(cp.at); left > lifetime+2*time.Second {
			out.violate("sig:created:outlives-configured-lifetime", "%s: the token of submission #%d (%s) is valid for another %v when it arrives; the configured token lifetime is %v", ctxs, i, kind, left.Round(time.Second), lifetime)
		}
	}
	out.count("tokens_examined", want)
	out.Outcome = fmt.Sprintf("created tokens %d", want)
	return out
}

func execC15(w *W, raw json.RawMessage) CaseOut {
	var a c15RealArgs
	json.Unmarshal(raw, &a)
	return execC15Real(a)
}

func coordC15(c *Coord) {
	c.runShards()
	if c.stopped() {
		return
	}
	p := c.newPool()
	defer p.close()
	kinds := []string{"signed", "signed-ttl", "plain"}
	var jobs []c15RealArgs
	for _, x := range kinds {
		jobs = append(jobs, c15RealArgs{Real: true, Seq: []string{x}})
		for _, y := range kinds {
			jobs = append(jobs, c15RealArgs{Real: true, Seq: []string{x, y}})
			for _, z := range kinds {
				if c.Thorough() || z == "signed" {
					jobs = append(jobs, c15RealArgs{Real: true, Seq: []string{x, y, z}})
				}
			}
		}
	}
	var wg sync.WaitGroup
	sem := make(chan struct{}, p.size())
	for _, j := range jobs {
		if c.stopped() {
			break
		}
		j := j
		wg.Add(1)
		sem <- struct{}{}
		go func() {
			defer wg.Done()
			defer func() { <-sem }()
			r := p.exec(j)
			raw, _ := json.Marshal(j)
			c.record(fmt.Sprintf("created tokens %v", j.Seq), raw, r.Out)
		}()
	}
	wg.Wait()
}
