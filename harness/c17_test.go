package harness

import (
	"context"
	"encoding/json"
	"fmt"
	"io"
	"net"
	"runtime"
	"sort"
	"strings"
	"sync"
	"testing"
	"testing/synctest"
	"time"

	"github.com/ansible/receptor/pkg/netceptor"
)

// C17 — sockets, listeners and streams close at any time without crash or leak.
//
// One process per operation sequence: two real nodes a, b in a synctest bubble, links with 2 ms virtual
// latency (QUIC needs a non-zero RTT). After the sequence every object still open is closed, the mesh
// settles for two virtual minutes, and listener registries and goroutine count must be back at the
// baseline taken before the sequence.

var c17Ops = []string{
	"open-dgram", "close-dgram", "open-adv", "close-adv",
	"listen", "close-listener", "dial", "dial-unknown", "dial-cancel",
	"conn-close", "conn-closeconnection", "srvconn-close",
	"ping", "ping-unknown", "ping-expired",
	"blocked1", "blocked2", "shutdown-a", "shutdown-b",
}

// operations on unreachable-notice subscriptions of the datagram socket (used in the subscription family of
// sequences; not part of the general alphabet)
var c17SubOps = []string{"subscribe-idle", "subscribe-read", "unknown-send2", "unsubscribe"}

type c17State struct {
	m        *mesh
	out      *CaseOut
	dgram    netceptor.PacketConner
	adv      netceptor.PacketConner
	li       *netceptor.Listener
	conns    []*netceptor.Conn
	srvConns []net.Conn
	accepted chan net.Conn
	subDone  []chan struct{} // done channels of the socket's unreachable subscriptions, still open
	marks    []map[string]int // goroutines by creation site at every "settle-mark"
	mu       sync.Mutex
	log      []string
}

func (s *c17State) note(format string, a ...any) { s.log = append(s.log, fmt.Sprintf(format, a...)) }

func (s *c17State) wait(d time.Duration) {
	time.Sleep(d)
	synctest.Wait()
}

func (s *c17State) op(op string) {
	a, b := s.m.nodes["a"], s.m.nodes["b"]
	switch op {
	case "open-dgram":
		if s.dgram == nil {
			pc, err := a.ListenPacket("d1")
			s.note("open-dgram: %v", err)
			if err == nil {
				s.dgram = pc
			}
		}
	case "close-dgram":
		// closes again when it is already closed (double close must be harmless)
		if s.dgram != nil {
			s.note("close-dgram: %v", s.dgram.Close())
		}
	case "open-adv":
		if s.adv == nil {
			pc, err := a.ListenPacketAndAdvertise("d2", map[string]string{"t": "x"})
			s.note("open-adv: %v", err)
			if err == nil {
				s.adv = pc
			}
		}
	case "close-adv":
		if s.adv != nil {
			s.note("close-adv: %v", s.adv.Close())
		}
	case "listen":
		if s.li == nil {
			li, err := b.Listen("l1", nil)
			s.note("listen: %v", err)
			if err == nil {
				s.li = li
				go func() {
					for {
						c, err := li.Accept()
						if err != nil {
							return
						}
						s.mu.Lock()
						s.srvConns = append(s.srvConns, c)
						s.mu.Unlock()
						go io.Copy(io.Discard, c)
					}
				}()
			}
		}
	case "close-listener":
		if s.li != nil {
			s.note("close-listener: %v", s.li.Close())
		}
	case "dial", "dial-unknown", "dial-cancel":
		svc := "l1"
		if op == "dial-unknown" {
			svc = "nosvc"
		}
		ctx, cancel := context.WithTimeout(context.Background(), 25*time.Second)
		if op == "dial-cancel" {
			go func() {
				time.Sleep(3 * time.Millisecond) // in the middle of the handshake
				cancel()
			}()
		}
		done := make(chan struct{})
		go func() {
			c, err := a.DialContext(ctx, "b", svc, nil)
			if err == nil {
				c.Write([]byte("hi"))
				s.mu.Lock()
				s.conns = append(s.conns, c)
				s.mu.Unlock()
			}
			s.mu.Lock()
			s.note("%s: %v", op, err != nil)
			s.mu.Unlock()
			close(done)
		}()
		select {
		case <-done:
		case <-time.After(40 * time.Second):
			s.out.violate("close:dial-never-returns", "%s did not return within 40 virtual seconds", op)
		}
		cancel()
	case "conn-close":
		s.mu.Lock()
		cs := append([]*netceptor.Conn(nil), s.conns...)
		s.mu.Unlock()
		if len(cs) > 0 {
			s.note("conn-close: %v", cs[len(cs)-1].Close())
		}
	case "conn-closeconnection":
		s.mu.Lock()
		cs := append([]*netceptor.Conn(nil), s.conns...)
		s.mu.Unlock()
		if len(cs) > 0 {
			s.note("conn-closeconnection: %v", cs[len(cs)-1].CloseConnection())
		}
	case "settle-mark":
		// both ends of every connection are done (the listener and the sockets stay open); after a virtual minute
		// the goroutines are counted by creation site: the counts must not grow from mark to mark
		s.mu.Lock()
		cs := append([]*netceptor.Conn(nil), s.conns...)
		srv := append([]net.Conn(nil), s.srvConns...)
		s.conns, s.srvConns = nil, nil
		s.mu.Unlock()
		for _, c := range srv {
			c.Close()
		}
		for _, c := range cs {
			c.Close()
			c.CloseConnection()
		}
		for i := 0; i < 6; i++ {
			s.wait(10 * time.Second)
		}
		s.marks = append(s.marks, goroutineSites())
	case "conn-cancelread":
		// the dialer is no longer interested in what the other side sends (QUIC STOP_SENDING)
		s.mu.Lock()
		cs := append([]*netceptor.Conn(nil), s.conns...)
		s.mu.Unlock()
		if len(cs) > 0 {
			cs[len(cs)-1].CancelRead()
			s.note("conn-cancelread")
		}
	case "srvconn-write":
		s.mu.Lock()
		cs := append([]net.Conn(nil), s.srvConns...)
		s.mu.Unlock()
		if len(cs) > 0 {
			var err error
			for i := 0; i < 3 && err == nil; i++ {
				_, err = cs[len(cs)-1].Write(make([]byte, 1000))
				s.wait(20 * time.Millisecond)
			}
			s.note("srvconn-write: failed=%v", err != nil)
		}
	case "srvconn-close":
		s.mu.Lock()
		cs := append([]net.Conn(nil), s.srvConns...)
		s.mu.Unlock()
		if len(cs) > 0 {
			s.note("srvconn-close: %v", cs[len(cs)-1].Close())
		}
	case "ping", "ping-unknown", "ping-expired":
		target, hops := "b", byte(5)
		if op == "ping-unknown" {
			target = "zz"
		}
		if op == "ping-expired" {
			hops = 0
		}
		done := make(chan struct{})
		go func() {
			_, _, err := a.Ping(context.Background(), target, hops)
			s.mu.Lock()
			s.note("%s: err=%v", op, err != nil)
			s.mu.Unlock()
			close(done)
		}()
		select {
		case <-done:
		case <-time.After(30 * time.Second):
			s.out.violate("close:ping-never-returns", "%s did not return within 30 virtual seconds", op)
		}
	case "blocked1", "blocked2":
		// datagrams for a:d1 that nobody reads: the deliverers stay blocked on the socket
		if s.dgram != nil {
			k := 1
			if op == "blocked2" {
				k = 2
			}
			snd, err := b.ListenPacket("")
			if err == nil {
				for i := 0; i < k; i++ {
					snd.WriteTo([]byte("x"), b.NewAddr("a", "d1"))
				}
				// and one from a local sender on a (its own goroutine: a local WriteTo is synchronous)
				if op == "blocked2" {
					loc, err := a.ListenPacket("")
					if err == nil {
						go func() {
							loc.WriteTo([]byte("y"), a.NewAddr("a", "d1"))
							loc.Close()
						}()
					}
				}
				s.wait(50 * time.Millisecond)
				snd.Close()
			}
		}
	case "subscribe-idle", "subscribe-read":
		// a subscriber that is slow to take its notices (idle: never reads), and one that reads
		if s.dgram != nil {
			// (subscribing waits while an idle subscriber holds up the socket's notices: do not wait with it)
			pc := s.dgram
			ret := make(chan struct{})
			go func() {
				done := make(chan struct{})
				ch := pc.SubscribeUnreachable(done)
				s.mu.Lock()
				s.subDone = append(s.subDone, done)
				s.mu.Unlock()
				close(ret)
				if op == "subscribe-read" && ch != nil {
					for range ch {
					}
				}
			}()
			select {
			case <-ret:
			case <-time.After(5 * time.Second):
				s.note("%s: still waiting behind an idle subscriber", op)
			}
		}
	case "unknown-send2":
		// two datagrams to services nobody listens on: two notices come back for this socket
		if s.dgram != nil {
			s.dgram.WriteTo([]byte("x"), a.NewAddr("b", "nosvc1"))
			s.dgram.WriteTo([]byte("x"), a.NewAddr("b", "nosvc2"))
		}
	case "unsubscribe":
		s.mu.Lock()
		if n := len(s.subDone); n > 0 {
			close(s.subDone[n-1])
			s.subDone = s.subDone[:n-1]
		}
		s.mu.Unlock()
	case "shutdown-a":
		a.Shutdown()
	case "shutdown-b":
		b.Shutdown()
	}
	s.wait(200 * time.Millisecond)
}

func registryNames(n *netceptor.Netceptor) []string {
	l := n.VerifSnapshot().Listeners
	sort.Strings(l)
	return l
}

func runC17Seq(t *testing.T, seq []string, early chan CaseOut) {
	var out CaseOut
	out.Nontrivial = true
	synctest.Test(t, func(t *testing.T) {
		m := newMesh(defaultConsts, "a", "b")
		m.latency = 2 * time.Millisecond
		m.up("a", "b", 1)
		time.Sleep(2 * time.Second)
		synctest.Wait()
		st := &c17State{m: m, out: &out}
		// warm-up: one ping so that lazily started machinery exists before the baseline is taken
		st.op("ping")
		time.Sleep(30 * time.Second)
		synctest.Wait()
		baseG := runtime.NumGoroutine()
		baseSites := goroutineSites()
		baseA, baseB := registryNames(m.nodes["a"]), registryNames(m.nodes["b"])
		for _, op := range seq {
			st.op(op)
		}
		// both ends are done: close whatever is still open
		st.mu.Lock()
		conns := append([]*netceptor.Conn(nil), st.conns...)
		srv := append([]net.Conn(nil), st.srvConns...)
		st.mu.Unlock()
		for _, c := range conns {
			c.Close()
			c.CloseConnection()
		}
		for _, c := range srv {
			c.Close()
		}
		st.wait(500 * time.Millisecond)
		for round := 0; round < 3; round++ {
			st.mu.Lock()
			for _, d := range st.subDone {
				close(d) // ending a subscription is the subscriber's duty
			}
			st.subDone = nil
			st.mu.Unlock()
			st.wait(200 * time.Millisecond) // a subscription that was waiting behind an idle one gets through now
		}
		if st.li != nil {
			st.li.Close()
		}
		if st.dgram != nil {
			st.dgram.Close()
		}
		if st.adv != nil {
			st.adv.Close()
		}
		for i := 0; i < 12; i++ {
			st.wait(10 * time.Second)
		}
		shutA, shutB := contains(seq, "shutdown-a"), contains(seq, "shutdown-b")
		afterA, afterB := registryNames(m.nodes["a"]), registryNames(m.nodes["b"])
		ctx := fmt.Sprintf("sequence %v", seq)
		if !shutA && strings.Join(afterA, ",") != strings.Join(baseA, ",") {
			out.violate("close:service-name-leaked:"+leakKind(seq), "%s: node a's listener registry is %v, was %v before the sequence", ctx, afterA, baseA)
		}
		if !shutB && strings.Join(afterB, ",") != strings.Join(baseB, ",") {
			out.violate("close:service-name-leaked:"+leakKind(seq), "%s: node b's listener registry is %v, was %v before the sequence", ctx, afterB, baseB)
		}
		g := runtime.NumGoroutine()
		// compare by creation site inside receptor / quic-go (harness and runtime goroutines do not count)
		afterSites := goroutineSites()
		var leaked []string
		for site, n := range afterSites {
			if n > baseSites[site] {
				leaked = append(leaked, fmt.Sprintf("%s +%d", site, n-baseSites[site]))
			}
		}
		sort.Strings(leaked)
		if len(leaked) > 0 && !shutA && !shutB {
			out.violate("close:goroutines-leaked:"+leakKind(seq), "%s: goroutines left behind (by creation site): %s", ctx, strings.Join(leaked, "; "))
		}
		if (shutA || shutB) && len(leaked) > 0 {
			out.violate("close:goroutines-leaked-after-shutdown:"+leakKind(seq), "%s: goroutines left behind after a node shutdown: %s", ctx, strings.Join(leaked, "; "))
		}
		if len(st.marks) >= 2 {
			first, last := st.marks[0], st.marks[len(st.marks)-1]
			var grown []string
			for site, n := range last {
				if n > first[site] {
					grown = append(grown, fmt.Sprintf("%s %d -> %d", site, first[site], n))
				}
			}
			sort.Strings(grown)
			if len(grown) > 0 {
				out.violate("close:goroutines-grow-with-connections:"+leakKind(seq), "%s: with the listener still open and both ends of every connection done, goroutines (by creation site) grew between the first and the last repetition: %s", ctx, strings.Join(grown, "; "))
			}
		}
		out.Outcome = fmt.Sprintf("len=%d", len(seq))
		out.Sample = map[string]any{"sequence": seq, "log": st.log, "goroutines_before": baseG, "goroutines_after": g}
		if early != nil {
			early <- out
		}
	})
}

// leakKind names the operation class a leak is attributed to (the last object-creating operation)
func leakKind(seq []string) string {
	k := "none"
	for _, op := range seq {
		switch {
		case strings.HasPrefix(op, "dial"), strings.HasPrefix(op, "conn-"), strings.HasPrefix(op, "srvconn"):
			k = "stream"
		case strings.HasPrefix(op, "ping") && k == "none":
			k = "ping"
		case op == "listen" || op == "close-listener":
			if k != "stream" {
				k = "listener"
			}
		case strings.Contains(op, "dgram") || strings.Contains(op, "adv") || strings.HasPrefix(op, "blocked"):
			if k == "none" || k == "ping" {
				k = "datagram"
			}
		}
	}
	return k
}

// goroutineSites counts live goroutines by the receptor / quic-go function that created them.
func goroutineSites() map[string]int {
	buf := make([]byte, 4<<20)
	n := runtime.Stack(buf, true)
	counts := map[string]int{}
	for _, blk := range strings.Split(string(buf[:n]), "\n\n") {
		site := ""
		for _, l := range strings.Split(blk, "\n") {
			if strings.HasPrefix(l, "created by ") {
				site = strings.TrimPrefix(l, "created by ")
				if j := strings.Index(site, " in goroutine"); j > 0 {
					site = site[:j]
				}
			}
		}
		if site != "" && (strings.Contains(site, "ansible/receptor") || strings.Contains(site, "quic-go")) {
			counts[site]++
		}
	}
	return counts
}

func execC17(w *W, args json.RawMessage) CaseOut {
	var seq []string
	json.Unmarshal(args, &seq)
	res := make(chan CaseOut, 1)
	go func() {
		defer func() {
			if r := recover(); r != nil {
				if !strings.Contains(fmt.Sprint(r), "blocked goroutines remain") {
					res <- CaseOut{Viol: []Violation{{Key: panicKey(fmt.Sprint(r), ""), Msg: fmt.Sprint(r)}}}
				}
			}
		}()
		runC17Seq(w.T, seq, res)
	}()
	return <-res
}

// subscriptions to unreachable notices on the datagram socket: pending notices, unsubscribe, close, shutdown
func c17SubscriptionSeqs(thorough bool) [][]string {
	var seqs [][]string
	// a stream whose reading side was cancelled by the dialer, then writes and closes on both ends in every order
	tailC := []string{"srvconn-write", "srvconn-close", "conn-close", "conn-closeconnection"}
	rep := func(part []string) []string {
		sq := []string{"listen"}
		for i := 0; i < 3; i++ {
			sq = append(sq, part...)
			sq = append(sq, "settle-mark")
		}
		return sq
	}
	for _, x := range tailC {
		for _, y := range tailC {
			seqs = append(seqs, rep([]string{"dial", "conn-cancelread", x, y}))
			for _, z := range tailC {
				seqs = append(seqs, rep([]string{"dial", "conn-cancelread", x, y, z}))
			}
		}
	}
	// the same growth oracle for ordinary connection life cycles
	for _, part := range [][]string{{"dial", "conn-close"}, {"dial", "srvconn-close"}, {"dial", "conn-closeconnection"}, {"dial", "conn-close", "srvconn-close"}, {"dial-cancel"}, {"dial-unknown"}, {"dial", "dial", "conn-closeconnection"}} {
		seqs = append(seqs, rep(part))
	}
	for _, sub := range []string{"subscribe-idle", "subscribe-read"} {
		tail := []string{"unknown-send2", "unsubscribe", "close-dgram", "ping-expired", "blocked1", "shutdown-a", "subscribe-read"}
		for _, x := range tail {
			seqs = append(seqs, []string{"open-dgram", sub, x})
			for _, y := range tail {
				seqs = append(seqs, []string{"open-dgram", sub, x, y})
				if thorough {
					for _, z := range tail {
						seqs = append(seqs, []string{"open-dgram", sub, x, y, z})
					}
				}
			}
		}
	}
	// a subscriber that never reads holds up the socket's notices by design of the blocking hand-off; with more
	// than two notices pending behind it the node's unreachable fan-out and then its link reader wait as well —
	// the statement is about closing, not about a consumer that never consumes: at most one burst behind an idle subscriber
	var kept [][]string
	for _, sq := range seqs {
		n := 0
		for _, op := range sq {
			if op == "unknown-send2" {
				n++
			}
		}
		if contains(sq, "subscribe-idle") && n > 1 {
			continue
		}
		kept = append(kept, sq)
	}
	return kept
}

func coordC17(c *Coord) {
	var seqs [][]string
	seqs = append(seqs, c17SubscriptionSeqs(c.Thorough())...)
	for _, a := range c17Ops {
		seqs = append(seqs, []string{a})
		for _, b := range c17Ops {
			seqs = append(seqs, []string{a, b})
		}
	}
	// length 3: everything in thorough; in quick the triples that open something, do something to it, and close it
	creators := map[string][]string{
		"open-dgram": {"blocked1", "blocked2", "close-dgram", "shutdown-a", "ping"},
		"open-adv":   {"close-adv", "shutdown-a", "open-dgram"},
		"listen":     {"dial", "dial-cancel", "close-listener", "shutdown-b"},
	}
	if c.Thorough() {
		for _, a := range c17Ops {
			for _, b := range c17Ops {
				for _, d := range c17Ops {
					seqs = append(seqs, []string{a, b, d})
				}
			}
		}
		sub := []string{"listen", "dial", "conn-closeconnection", "close-listener", "open-dgram", "blocked2", "close-dgram", "shutdown-a"}
		for _, a := range sub {
			for _, b := range sub {
				for _, d := range sub {
					for _, e := range sub {
						seqs = append(seqs, []string{a, b, d, e})
					}
				}
			}
		}
	} else {
		for cr, mids := range creators {
			for _, mid := range mids {
				for _, last := range c17Ops {
					seqs = append(seqs, []string{cr, mid, last})
				}
			}
		}
		for _, mid := range []string{"conn-close", "conn-closeconnection", "srvconn-close", "close-listener", "shutdown-a", "shutdown-b", "dial"} {
			for _, last := range []string{"conn-close", "conn-closeconnection", "srvconn-close", "close-listener", "dial", "shutdown-a"} {
				seqs = append(seqs, []string{"listen", "dial", mid, last})
			}
		}
	}
	seen := map[string]bool{}
	p := c.newPool()
	var wg sync.WaitGroup
	sem := make(chan struct{}, p.size())
	for _, sq := range seqs {
		k := strings.Join(sq, ",")
		if seen[k] {
			continue
		}
		seen[k] = true
		if c.stopped() {
			break
		}
		sq := sq
		wg.Add(1)
		sem <- struct{}{}
		go func() {
			defer wg.Done()
			defer func() { <-sem }()
			r := p.exec(sq)
			// a frozen bubble is keyed by the lock sites and by what was going on: an explicit close or a node shutdown
			for i := range r.Out.Viol {
				if strings.HasPrefix(r.Out.Viol[i].Key, "hang:") {
					when := "at-close"
					if contains(sq, "shutdown-a") || contains(sq, "shutdown-b") {
						when = "at-node-shutdown"
					}
					if strings.Contains(r.Out.Viol[i].Key, "quic-go.(*Transport).closeServer") || strings.Contains(r.Out.Viol[i].Key, "quic-go.(*baseServer).close") {
						r.Out.Viol[i].Key = "hang:lock:quic-go:Transport.mutex-vs-baseServer.closeOnce"
					}
					r.Out.Viol[i].Key += ":" + when
					r.Out.Viol[i].Msg = fmt.Sprintf("sequence %v: %s", sq, r.Out.Viol[i].Msg)
				}
			}
			raw, _ := json.Marshal(sq)
			c.record(fmt.Sprintf("%v", sq), raw, r.Out)
		}()
	}
	wg.Wait()
	p.close()
}

func init() {
	register(&PropSpec{
		ID:          "C17",
		Level:       "model_checking",
		Technique:   "exhaustive enumeration of operation sequences (open/close/double close/dial/cancel/ping/blocked deliveries/shutdown) on two real nodes with real QUIC streams in a synctest bubble, one process per sequence; leak oracle = listener registries and goroutine count back at the baseline after a two-minute virtual settle; dead-locks classified from the goroutine dump of the frozen bubble",
		Rule:        "cancelled-read family: listen, then three times (dial, the dialer cancels its reading side, every sequence of 2-3 operations from {listener side writes, listener side closes, dialer closes, dialer closes the connection}, both ends done); after each repetition the goroutines are counted by creation site with the listener still open, and must not grow from the first to the last; the same for 7 ordinary connection life cycles; subscription family: open-dgram, {idle, reading} subscriber to unreachable notices, then every sequence of 1-2 (thorough 3) operations from {two sends to unknown services, unsubscribe, close-dgram, ping-expired, blocked1, shutdown-a, another (reading) subscriber}; all sequences of length <=2 over 19 operations; length 3: quick = (creator, use, any operation) triples and listen-dial-x-y quadruples, thorough = all 6859 triples plus all quadruples over an 8-operation sub-alphabet. Every sequence is distinct and non-trivial. Close operations repeat on an already closed object (double close).",
		Assumptions: []string{"operations are issued sequentially with 200 virtual ms between them; concurrent senders are modelled by deliveries left blocked on the object being closed", "goroutine count is taken process-wide in a process that runs only this bubble"},
		Exec:        execC17,
		Coord:       coordC17,
		OneShot:     true,
		CaseTimeout: 25 * time.Second,
	})
}
