package harness

import (
	"encoding/json"
	"fmt"
	"sort"
	"strings"
	"testing"
	"testing/synctest"
	"time"

	"github.com/ansible/receptor/pkg/logger"
	"github.com/ansible/receptor/pkg/netceptor"
)

// C18 — service advertisements converge; a withdrawn service is never resurrected.

type c18Scenario struct {
	Name   string
	Names  []string
	Edges  [][2]string
	Events []string // "open <node> <svc>", "close <node> <svc>", "adtick", "join <x> <y>"
	Bound  int
	Bag    bool
}

type c18Mon struct {
	m         *mesh
	out       *CaseOut
	withdrawn map[string]time.Time // "node|owner:svc" -> newest withdrawal time processed by node
	listed    map[string]time.Time // "node|owner:svc" -> time stamp currently/last listed
}

func (mon *c18Mon) observe(ctx string) {
	for _, n := range mon.m.names {
		if !mon.m.alive[n] {
			continue
		}
		for _, a := range mon.m.nodes[n].Status().Advertisements {
			if a.NodeID == n {
				continue // own services carry "now"
			}
			key := n + "|" + a.NodeID + ":" + a.Service
			if w, ok := mon.withdrawn[key]; ok && !a.Time.After(w) {
				mon.out.violate("ads:resurrected-after-withdrawal", "%s: %s lists %s:%s with time stamp %v although it processed the withdrawal of %v",
					ctx, n, a.NodeID, a.Service, a.Time.Sub(mon.m.t0), w.Sub(mon.m.t0))
			}
			if l, ok := mon.listed[key]; ok && a.Time.Before(l) {
				mon.out.violate("ads:older-ad-replaced-newer", "%s: %s lists %s:%s with time stamp %v after having listed %v", ctx, n, a.NodeID, a.Service, a.Time.Sub(mon.m.t0), l.Sub(mon.m.t0))
			}
			mon.listed[key] = a.Time
		}
	}
}

func (mon *c18Mon) post(link string, msg []byte) {
	if len(msg) > 0 && msg[0] == 2 {
		var a wireAd
		if json.Unmarshal(msg[1:], &a) == nil && a.Cancel {
			dst := strings.Split(link, ">")[1]
			key := dst + "|" + a.NodeID + ":" + a.Service
			if w, ok := mon.withdrawn[key]; !ok || a.Time.After(w) {
				mon.withdrawn[key] = a.Time
			}
		}
	}
	mon.observe("after " + link + " " + mon.m.canonMsg(msg))
}

func isAd(d []byte) bool { return len(d) > 0 && d[0] == 2 }

func runC18Once(t *testing.T, sc c18Scenario, r *xrun) []Violation {
	var out CaseOut
	bubble(t, func(t *testing.T) {
		m := newMesh(defaultConsts, sc.Names...)
		for _, e := range sc.Edges {
			m.up(e[0], e[1], 1)
		}
		m.closure(1)
		mon := &c18Mon{m: m, out: &out, withdrawn: map[string]time.Time{}, listed: map[string]time.Time{}}
		open := map[string]netceptor.PacketConner{}
		tags := map[string]map[string]string{}
		held := map[string]bool{}
		pruned := false
		for i, ev := range sc.Events {
			f := strings.Fields(ev)
			time.Sleep(10 * time.Millisecond) // wall-clock time stamps of successive operations differ
			switch f[0] {
			case "open":
				tg := map[string]string{"k": f[2] + fmt.Sprint(i)}
				pc, err := m.nodes[f[1]].ListenPacketAndAdvertise(f[2], tg)
				if err != nil {
					out.violate("harness:c18-open", "%v", err)
					break
				}
				open[f[1]+":"+f[2]] = pc
				tags[f[1]+":"+f[2]] = tg
			case "close":
				if pc := open[f[1]+":"+f[2]]; pc != nil {
					pc.Close()
					delete(open, f[1]+":"+f[2])
				}
			case "adtick":
				m.step++
				time.Sleep(5100 * time.Millisecond)
			case "join":
				m.up(f[1], f[2], 1)
			}
			synctest.Wait()
			r.steps++
			res := m.exploreSettle(r, settleOpts{canFireNext: i < len(sc.Events)-1, ctx: fmt.Sprintf("ev%d", i), bag: sc.Bag, noTick: true,
				auto: func(d []byte) bool { return !isAd(d) }, held: held, post: mon.post, maxIter: 40})
			if res == "pruned" {
				pruned = true
				break
			}
		}
		if !pruned {
			// closure: everything in flight (bounded: withdrawals may circulate for ever), then two advertisement periods
			for k := range held {
				delete(held, k)
			}
			circulating := 0
			deliverSome := func(max int) int {
				n := 0
				for n < max {
					moved := false
					for _, k := range m.sortedLinks() {
						if m.sess[k].pending() > 0 {
							s := m.sess[k]
							s.mu.Lock()
							d := s.outbox[0].data
							s.mu.Unlock()
							m.deliverAt(k, 0)
							mon.post(k, d)
							n++
							moved = true
						}
					}
					if !moved {
						break
					}
				}
				return n
			}
			if deliverSome(200) >= 200 {
				circulating++
			}
			// three advertisement periods, in 2.5 s steps with deliveries in between (links must not look idle)
			for j := 0; j < 3*24; j++ {
				m.tick(m.consts.adTime / 24)
				if deliverSome(60) >= 60 {
					circulating++
				}
			}
			if circulating > 0 {
				out.count("closures_with_circulating_messages", 1)
			}
			// every live node lists exactly the open advertised services of the nodes it can reach
			dist := m.dist()
			for _, n := range m.names {
				want := map[string]string{}
				for k, tg := range tags {
					if _, isOpen := open[k]; !isOpen {
						continue
					}
					owner := strings.Split(k, ":")[0]
					if d, ok := dist[n][owner]; ok && d < 1e300 {
						want[k] = fmt.Sprint(tg)
					}
				}
				got := map[string]string{}
				for _, a := range m.nodes[n].Status().Advertisements {
					got[a.NodeID+":"+a.Service] = fmt.Sprintf("%v type=%d", a.Tags, a.ConnType)
				}
				var wk, gk []string
				for k, v := range want {
					wk = append(wk, k+"="+v+" type=0")
				}
				for k, v := range got {
					gk = append(gk, k+"="+v)
				}
				sort.Strings(wk)
				sort.Strings(gk)
				if strings.Join(wk, ";") != strings.Join(gk, ";") {
					out.violate("ads:closure-mismatch", "after closure %s lists [%s], open services of reachable nodes are [%s]", n, strings.Join(gk, "; "), strings.Join(wk, "; "))
				}
			}
		}
		m.end()
	})
	return dedupViol(out.Viol)
}

// ---- a Close that lands inside an advertisement round --------------------------------------------------
//
// sendServiceAds snapshots the advertised listeners and then sends one advertisement after the other. The
// log call between two sends is used as the seam: when the k-th advertisement of the round is about to be
// sent, another advertised service (not yet sent in this round) is closed. Every k, both delivery orders.

func runC18CloseInRound(t *testing.T, nsvc int, closeAt int, reverse bool) CaseOut {
	var out CaseOut
	out.Nontrivial = true
	bubble(t, func(t *testing.T) {
		m := newMesh(defaultConsts, "a", "b")
		m.up("a", "b", 1)
		m.closure(1)
		mon := &c18Mon{m: m, out: &out, withdrawn: map[string]time.Time{}, listed: map[string]time.Time{}}
		open := map[string]netceptor.PacketConner{}
		for i := 0; i < nsvc; i++ {
			svc := fmt.Sprintf("svc%d", i)
			time.Sleep(10 * time.Millisecond)
			pc, err := m.nodes["a"].ListenPacketAndAdvertise(svc, map[string]string{"k": svc})
			if err != nil {
				out.violate("harness:c18-open", "%v", err)
				return
			}
			open[svc] = pc
		}
		m.wait()
		// first round: everybody learns all services
		time.Sleep(5100 * time.Millisecond)
		m.wait()
		m.flush()
		// second (periodic) round with a Close inside it
		sent := map[string]bool{}
		count := 0
		closed := ""
		logger.RegisterLogger(func(level int, format string, v ...interface{}) {
			if !strings.HasPrefix(format, "Sending service advertisement") || len(v) == 0 {
				return
			}
			sa, ok := v[0].(*netceptor.ServiceAdvertisement)
			if !ok || sa.NodeID != "a" {
				return
			}
			sent[sa.Service] = true
			if count == closeAt && closed == "" {
				for i := 0; i < nsvc; i++ {
					svc := fmt.Sprintf("svc%d", i)
					if !sent[svc] {
						time.Sleep(time.Millisecond)
						open[svc].Close()
						delete(open, svc)
						closed = svc
						time.Sleep(time.Millisecond)
						break
					}
				}
			}
			count++
		})
		deliverAll := func() {
			for i := 0; i < 200; i++ {
				moved := false
				for _, k := range m.sortedLinks() {
					if m.sess[k].pending() > 0 {
						sk := m.sess[k]
						sk.mu.Lock()
						d := sk.outbox[0].data
						sk.mu.Unlock()
						m.deliverAt(k, 0)
						mon.post(k, d)
						moved = true
					}
				}
				if !moved {
					break
				}
			}
		}
		reversed := false
		// one advertisement period in 2.5 s steps with deliveries in between (links must not look idle)
		for j := 0; j < 26; j++ {
			m.tick(m.consts.adTime / 24)
			if closed != "" && !reversed {
				reversed = true
				// deliver in link order or in reverse order (the withdrawal before / after the advertisements)
				if s := m.sess["a>b"]; s != nil && reverse {
					s.mu.Lock()
					for i, j := 0, len(s.outbox)-1; i < j; i, j = i+1, j-1 {
						s.outbox[i], s.outbox[j] = s.outbox[j], s.outbox[i]
					}
					s.mu.Unlock()
				}
			}
			deliverAll()
		}
		logger.RegisterLogger(nil)
		if closed == "" {
			out.count("close_not_placed", 1)
		}
		m.settle()
		var want, got []string
		for svc := range open {
			want = append(want, "a:"+svc)
		}
		for _, a := range m.nodes["b"].Status().Advertisements {
			got = append(got, a.NodeID+":"+a.Service)
		}
		sort.Strings(want)
		sort.Strings(got)
		if strings.Join(want, ",") != strings.Join(got, ",") {
			out.violate("ads:closure-mismatch:close-inside-ad-round", "services=%d, %s closed while advertisement %d of the round was being sent (reverse delivery=%v): b lists %v, open services are %v", nsvc, closed, closeAt, reverse, got, want)
		}
		out.Outcome = fmt.Sprintf("close-in-round n=%d", nsvc)
		m.end()
	})
	return out
}

func runC18(w *W) {
	for _, nsvc := range []int{2, 3} {
		for closeAt := 0; closeAt < nsvc-1; closeAt++ {
			for _, rev := range []bool{false, true} {
				nsvc, closeAt, rev := nsvc, closeAt, rev
				w.Case(fmt.Sprintf("close inside ad round services=%d at=%d reverse=%v", nsvc, closeAt, rev), func() CaseOut {
					return runC18CloseInRound(w.T, nsvc, closeAt, rev)
				})
			}
		}
	}
	tri := [][2]string{{"a", "b"}, {"b", "c"}, {"a", "c"}}
	chain := [][2]string{{"a", "b"}, {"b", "c"}}
	abc := []string{"a", "b", "c"}
	d := 2
	var scs []c18Scenario
	scs = append(scs,
		c18Scenario{"triangle open", abc, tri, []string{"open a svc", "adtick"}, d, false},
		c18Scenario{"triangle open close", abc, tri, []string{"open a svc", "adtick", "close a svc", "adtick"}, d, false},
		c18Scenario{"triangle open close, no tick", abc, tri, []string{"open a svc", "close a svc"}, d, false},
		c18Scenario{"chain open close", abc, chain, []string{"open a svc", "adtick", "close a svc", "adtick"}, d, false},
		c18Scenario{"chain open close reopen", abc, chain, []string{"open a svc", "adtick", "close a svc", "open a svc", "adtick"}, d, false},
		c18Scenario{"triangle two services on two nodes", abc, tri, []string{"open a svc", "open b svc2", "adtick", "close a svc", "adtick"}, 1, false},
		// flood() hands every message to its own goroutine per link, so an advertisement and the withdrawal that
		// follows it may be written to one link in either order: bag links
		c18Scenario{"pair open close (bag)", []string{"a", "b"}, [][2]string{{"a", "b"}}, []string{"open a svc", "adtick", "close a svc"}, 2, true},
		c18Scenario{"chain open close (bag)", abc, chain, []string{"open a svc", "adtick", "close a svc"}, d, true},
		c18Scenario{"chain open close reopen (bag)", abc, chain, []string{"open a svc", "adtick", "close a svc", "open a svc", "adtick"}, 1, true},
		c18Scenario{"pair open close reopen with other tags (bag)", []string{"a", "b"}, [][2]string{{"a", "b"}}, []string{"open a svc", "adtick", "close a svc", "open a svc", "adtick"}, 2, true},
		c18Scenario{"late joiner", []string{"a", "b", "c"}, [][2]string{{"a", "b"}}, []string{"open a svc", "adtick", "join b c", "adtick"}, d, false},
		c18Scenario{"late joiner after close", []string{"a", "b", "c"}, [][2]string{{"a", "b"}}, []string{"open a svc", "adtick", "close a svc", "join b c", "adtick"}, d, false},
	)
	if w.Thorough() {
		scs = append(scs,
			c18Scenario{"triangle open close (bag)", abc, tri, []string{"open a svc", "adtick", "close a svc", "adtick"}, 2, true},
			c18Scenario{"triangle open close reopen close", abc, tri, []string{"open a svc", "adtick", "close a svc", "adtick", "open a svc", "adtick", "close a svc", "adtick"}, 2, false},
			c18Scenario{"triangle open close d3", abc, tri, []string{"open a svc", "adtick", "close a svc", "adtick"}, 3, false},
		)
	}
	for _, sc := range scs {
		sc := sc
		id := fmt.Sprintf("%s events=%v bag=%v d=%d", sc.Name, sc.Events, sc.Bag, sc.Bound)
		w.explorerCaseParts(id, sc.Bound, 2, func(r *xrun) []Violation { return runC18Once(w.T, sc, r) })
	}
}

func init() {
	register(&PropSpec{
		ID:        "C18",
		Level:     "model_checking",
		Technique: "stateless deviation-bounded DFS with state-hash pruning over delivery orders of service advertisements and withdrawals between real Netceptor nodes in a synctest bubble (links FIFO with held links spanning events, and bag links — any in-flight message next — on a pair and a chain; thorough: bag links on the triangle); monitors after every delivery, listing compared with the open services after a bounded closure",
		Rule: "scenarios on a triangle, a 3-chain and a late joiner: open / close / reopen of advertised services on one or two nodes, advertisement ticks, link up of the joiner; every schedule of the advertisement messages with <=2 deviations (deliver another link first, hold a link — also across the next event —, fire the next event early); routing messages are delivered canonically. " +
			"Monitors: a listed time stamp never decreases; after a node processed a withdrawal with time T it never lists that service with a time <= T; after closure (all in flight, bounded by 200 deliveries, + 3 advertisement periods) every node lists exactly the open advertised services of reachable nodes with tags and type. A case is one scenario part; non-trivial = at least one choice point. " +
			"Plus: a Close of an advertised service placed inside an advertisement round (between the sends of the round, using the log call as the seam) for 2 and 3 services, every position, both delivery orders.",
		Assumptions: []string{"operations on one service are >= 10 virtual ms apart (time stamps are wall-clock)", "withdrawals that keep circulating are counted (closures_with_circulating_messages), the statement does not speak about them"},
		Run:         runC18,
		CaseTimeout: 90 * time.Second,
	})
}
