package harness

import (
	"fmt"
	"testing"
	"time"

	"github.com/ansible/receptor/pkg/netceptor"
)

// C12 level 2 — rule lists installed on real nodes: packets are judged at origin, transit and
// destination, and so are the `blocked by firewall` notices on their way back.

var c12MeshMenu = []map[interface{}]interface{}{
	{"action": "drop"},
	{"action": "reject"},
	{"action": "accept"},
	{"action": "reject", "fromnode": "a"},
	{"action": "drop", "toservice": "rcv"},
	{"action": "reject", "tonode": "/c|zz/"},
	{"action": "accept", "fromservice": "snd"},
	{"action": "drop", "fromservice": "unreach"},
	{"action": "reject", "toservice": "/r.*/", "fromnode": "c"},
	{"action": "accept", "tonode": "/c.+/"},
}

// refMeshOutcome simulates the statement on the chain a-b-c with rules installed at one node.
func refMeshOutcome(rulesAt map[string][]refRule, src, dst string) string {
	path := map[string][]string{"a>c": {"a", "b", "c"}, "c>a": {"c", "b", "a"}}[src+">"+dst]
	pkt := fwPacket{FromNode: src, ToNode: dst, FromService: "snd", ToService: "rcv"}
	for i, n := range path {
		switch refDecide(rulesAt[n], pkt) {
		case "drop":
			return "silent"
		case "reject":
			// the notice travels back from n to src and is judged on every node it touches
			notice := fwPacket{FromNode: n, ToNode: src, FromService: "unreach", ToService: "unreach"}
			for j := i; j >= 0; j-- {
				if refDecide(rulesAt[path[j]], notice) != "accept" {
					return "silent"
				}
			}
			return "blocked-by:" + n
		}
	}
	return "delivered"
}

func runC12Mesh(t *testing.T, list []int, at string) CaseOut {
	var out CaseOut
	out.Nontrivial = true
	bubble(t, func(t *testing.T) {
		m := newMesh(defaultConsts, "a", "b", "c")
		m.up("a", "b", 1)
		m.up("b", "c", 1)
		m.closure(1)
		var raw []netceptor.FirewallRuleData
		var ref []refRule
		var rl []map[interface{}]interface{}
		for _, i := range list {
			raw = append(raw, netceptor.FirewallRuleData(c12MeshMenu[i]))
			r, ok := refParse(c12MeshMenu[i])
			if !ok {
				out.violate("harness:c12-menu", "menu rule %d is not valid", i)
				return
			}
			ref = append(ref, r)
			rl = append(rl, c12MeshMenu[i])
		}
		rules, err := netceptor.ParseFirewallRules(raw)
		if err != nil {
			out.violate("fw:refused-valid", "valid rule list %s refused: %v", fwListString(rl), err)
			return
		}
		m.nodes[at].AddFirewallRules(rules, true)
		rulesAt := map[string][]refRule{at: ref}
		for _, dir := range [][2]string{{"a", "c"}, {"c", "a"}} {
			src, dst := dir[0], dir[1]
			rcv, err := m.nodes[dst].ListenPacket("rcv")
			if err != nil {
				out.violate("harness:c12-listen", "%v", err)
				return
			}
			snd, err := m.nodes[src].ListenPacket("snd")
			if err != nil {
				out.violate("harness:c12-listen", "%v", err)
				return
			}
			done := make(chan struct{})
			nch := snd.SubscribeUnreachable(done)
			var notices []netceptor.UnreachableNotification
			go func() {
				for n := range nch {
					notices = append(notices, n)
				}
			}()
			m.wait()
			snd.WriteTo([]byte("probe"), m.nodes[src].NewAddr(dst, "rcv"))
			m.wait()
			got := pumpDraining(m, map[string]netceptor.PacketConner{dst + ":rcv": rcv})
			time.Sleep(200 * time.Millisecond)
			m.wait()
			got = append(got, pumpDraining(m, map[string]netceptor.PacketConner{dst + ":rcv": rcv})...)
			close(done)
			m.wait()
			obs := "silent"
			if len(got) > 0 {
				obs = "delivered"
			}
			if len(notices) > 0 {
				if notices[0].Problem == netceptor.ProblemRejected {
					obs = "blocked-by:" + notices[0].ReceivedFromNode
				} else {
					obs = "notice:" + notices[0].Problem
				}
				if len(got) > 0 {
					obs = "delivered+" + obs
				}
			}
			want := refMeshOutcome(rulesAt, src, dst)
			if obs != want {
				out.violate("fw:node-decision:"+want+"->"+obs, "rules %s installed at %s, packet %s:snd -> %s:rcv: observed %s, the first matching rule at each node dictates %s", fwListString(rl), at, src, dst, obs, want)
			}
			out.count("packets", 1)
			rcv.Close()
			snd.Close()
			m.wait()
		}
		out.Outcome = fmt.Sprintf("mesh at=%s len=%d", at, len(list))
		m.end()
	})
	return out
}

func runC12MeshAll(w *W) {
	var lists [][]int
	for i := range c12MeshMenu {
		lists = append(lists, []int{i})
		for j := range c12MeshMenu {
			lists = append(lists, []int{i, j})
			if w.Thorough() {
				for k := range c12MeshMenu {
					if (i+j+k)%3 == 0 {
						lists = append(lists, []int{i, j, k})
					}
				}
			}
		}
	}
	for _, l := range lists {
		for _, at := range []string{"a", "b", "c"} {
			l, at := l, at
			w.Case(fmt.Sprintf("mesh rules=%v at=%s", l, at), func() CaseOut {
				o := runC12Mesh(w.T, l, at)
				if len(l) == 2 && l[0] == 3 && l[1] == 0 && at == "b" {
					o.Sample = map[string]any{"rules": l, "installed_at": at, "outcome": o.Outcome}
				}
				return o
			})
		}
	}
}
