package harness

import (
	"fmt"
	"os"
	"path/filepath"
	"strings"
	"testing"
	"time"
)

// C08 — no control-service input can crash or wedge a node; sessions are isolated.

type c08Input struct {
	Name   string
	Bytes  []byte
	Expect string // "ERROR": first reply line must start with ERROR; "reply": some reply line; "any": nothing demanded of the reply
	Class  string
	Then   string // "eof": close the write side after sending; "drop": disconnect right after sending
	Setup  string // extra preparation: "disk-unit-ok", "disk-unit-nostatus", "disk-unit-corrupt", "unit"
}

const c08UnitPlaceholder = "@UNIT@"

func runC08Input(t *testing.T, ins []c08Input) CaseOut {
	var out CaseOut
	out.Nontrivial = true
	bubble(t, func(t *testing.T) {
		e := newCtlEnv("n1", []workTypeSpec{{"echo", "echo", false}, {"hold", "hold", false}})
		defer e.close()
		unitID := "nounit00"
		// preparation
		for _, in := range ins {
			switch in.Setup {
			case "unit":
				u, err := e.w.AllocateUnit("hold", nil)
				if err != nil {
					out.violate("harness:c08-setup", "AllocateUnit: %v", err)
					return
				}
				os.WriteFile(filepath.Join(u.UnitDir(), "stdin"), []byte("x"), 0o600)
				u.Start()
				unitID = u.ID()
			case "disk-unit-ok":
				unitID = "diskonly"
				d := filepath.Join(e.dataDir(), unitID)
				os.MkdirAll(d, 0o700)
				os.WriteFile(filepath.Join(d, "status"), []byte(`{"State":2,"Detail":"done","StdoutSize":3,"WorkType":"echo","ExtraData":null}`+"\n"), 0o600)
				os.WriteFile(filepath.Join(d, "stdout"), []byte("abc"), 0o600)
			case "disk-unit-unknown-type":
				unitID = "diskunkn"
				d := filepath.Join(e.dataDir(), unitID)
				os.MkdirAll(d, 0o700)
				os.WriteFile(filepath.Join(d, "status"), []byte(`{"State":1,"Detail":"x","StdoutSize":0,"WorkType":"gone","ExtraData":null}`+"\n"), 0o600)
			case "disk-unit-nostatus":
				unitID = "disknost"
				os.MkdirAll(filepath.Join(e.dataDir(), unitID), 0o700)
			case "disk-unit-corrupt":
				unitID = "diskcorr"
				d := filepath.Join(e.dataDir(), unitID)
				os.MkdirAll(d, 0o700)
				os.WriteFile(filepath.Join(d, "status"), []byte(`{"State":2,"Deta`), 0o600)
			}
		}
		s, err := e.open()
		if err != nil {
			out.violate("harness:c08-open", "%v", err)
			return
		}
		open := true
		var replies []string
		for _, in := range ins {
			if !open {
				break
			}
			payload := []byte(strings.ReplaceAll(string(in.Bytes), c08UnitPlaceholder, unitID))
			if err := s.send(payload); err != nil {
				open = false
				break
			}
			switch in.Then {
			case "drop":
				s.close()
				open = false
				continue
			case "eof":
				s.closeWrite()
			}
			if in.Expect == "any" && in.Then != "" {
				continue
			}
			line, err := s.readLine(90 * time.Second)
			replies = append(replies, line)
			if err != nil {
				if in.Expect == "ERROR" || in.Expect == "reply" {
					out.violate("ctl:no-reply:"+in.Class, "input %s: no reply line (%v)", in.Name, err)
				}
				open = false
				break
			}
			if in.Expect == "ERROR" && !strings.HasPrefix(line, "ERROR") {
				out.violate("ctl:not-refused:"+in.Class, "input %s is not a valid command but the reply is %q", in.Name, trunc(line, 120))
			}
			if in.Then == "eof" || strings.HasPrefix(line, "Streaming results") || strings.HasPrefix(line, "Connecting") {
				open = false // the command took over the connection (stdin upload, result stream, bridge)
			}
			if open && strings.HasPrefix(line, "ERROR") {
				// malformed JSON is answered with two ERROR lines; take the second one off the wire before the next request
				if extra, err := s.readLine(2 * time.Second); err == nil && !strings.HasPrefix(extra, "ERROR") {
					out.violate("ctl:unsolicited-line", "after input %s an unsolicited line arrived: %q", in.Name, trunc(extra, 80))
				}
			}
		}
		last := ins[len(ins)-1]
		// probe on the same session
		if open && last.Expect != "any" {
			if err := s.send([]byte("status\n")); err == nil {
				// a request with malformed JSON is answered with two ERROR lines (the parse error and
				// "Unknown command"); the statement does not forbid that, so skip leftover ERROR lines
				line, err := s.readLine(90 * time.Second)
				for i := 0; i < 2 && err == nil && strings.HasPrefix(line, "ERROR"); i++ {
					line, err = s.readLine(90 * time.Second)
				}
				if err != nil || !strings.HasPrefix(line, "{") {
					out.violate("ctl:same-session-dead:"+last.Class, "after input %s the same session does not answer `status` (%q, %v)", last.Name, trunc(line, 80), err)
				}
			}
		}
		s.close()
		// probes on fresh sessions
		if line, err := e.ask("status"); err != nil || !strings.HasPrefix(line, "{") {
			out.violate("ctl:fresh-session-dead:"+last.Class, "after input %s a fresh session does not answer `status` (%q, %v)", last.Name, trunc(line, 80), err)
		}
		if line, err := e.ask("work list"); err != nil || !strings.HasPrefix(line, "{") {
			out.violate("ctl:work-list-dead:"+last.Class, "after input %s a fresh session does not answer `work list` (%q, %v)", last.Name, trunc(line, 80), err)
		}
		rs := "none"
		if len(replies) > 0 {
			r := replies[len(replies)-1]
			switch {
			case strings.HasPrefix(r, "ERROR"):
				rs = "ERROR"
			case strings.HasPrefix(r, "{"):
				rs = "json"
			case r == "":
				rs = "empty"
			default:
				rs = "text"
			}
		}
		out.Outcome = last.Class + "/" + rs
	})
	return out
}

func c08Menu(thorough bool) []c08Input {
	var ins []c08Input
	add := func(class, expect, name, line string) {
		ins = append(ins, c08Input{Name: name, Bytes: []byte(line + "\n"), Expect: expect, Class: class})
	}
	// ---- plain text forms, 0..4 tokens
	words := []string{"ping", "status", "connect", "traceroute", "reload", "work", "bogus", "PING", "Status"}
	toks := []string{"n1", "x", "5"}
	for _, w := range words {
		lines := []string{w}
		for _, a := range toks {
			lines = append(lines, w+" "+a)
			for _, b := range toks {
				lines = append(lines, w+" "+a+" "+b)
				if thorough {
					for _, c := range toks {
						lines = append(lines, w+" "+a+" "+b+" "+c)
					}
				}
			}
		}
		lines = append(lines, w+" a b c d", w+"  ", w+" \t")
		for _, l := range lines {
			expect := "reply"
			if w == "bogus" {
				expect = "ERROR"
			}
			if w == "connect" {
				expect = "reply"
			}
			add("text-"+strings.ToLower(w), expect, "text "+l, l)
		}
	}
	for _, sub := range []string{"", "list", "status", "cancel", "release", "force-release", "results", "submit", "bogus"} {
		for _, rest := range []string{"", " nounit00", " nounit00 0", " nounit00 x", " nounit00 0 1", " . ", " ..", " a/b", " ../../etc", " n1 echo", " n1 nosuchtype", " othernode echo"} {
			l := "work " + sub + rest
			if sub == "submit" && len(strings.Split("submit"+rest, " ")) >= 3 { // the server splits on single spaces
				// an accepted submit takes over the connection: send stdin and end of input
				ins = append(ins, c08Input{Name: "text " + l, Bytes: []byte(l + "\nstdin\n"), Expect: "reply", Class: "text-work-submit", Then: "eof"})
				continue
			}
			expect := "reply"
			add("text-work-"+sub, expect, "text "+l, l)
		}
	}
	// ---- JSON commands: every field absent / of every JSON type
	type field struct {
		name     string
		good     string
		required bool
	}
	type cmd struct {
		name   string
		fields []field
		setup  string
		then   string
	}
	cmds := []cmd{
		{"ping", []field{{"target", `"n1"`, true}}, "", ""},
		{"status", []field{{"requested_fields", `["NodeID","Connections"]`, false}}, "", ""},
		{"connect", []field{{"node", `"n1"`, true}, {"service", `"nosvc"`, true}, {"tls", `""`, false}}, "", ""},
		{"traceroute", []field{{"target", `"n1"`, true}}, "", ""},
		{"reload", nil, "", ""},
		{"work/list", []field{{"unitid", `"` + c08UnitPlaceholder + `"`, false}}, "unit", ""},
		{"work/status", []field{{"unitid", `"` + c08UnitPlaceholder + `"`, true}, {"signature", `""`, false}}, "unit", ""},
		{"work/cancel", []field{{"unitid", `"` + c08UnitPlaceholder + `"`, true}, {"signature", `""`, false}}, "unit", ""},
		{"work/release", []field{{"unitid", `"` + c08UnitPlaceholder + `"`, true}, {"signature", `""`, false}}, "unit", ""},
		{"work/force-release", []field{{"unitid", `"` + c08UnitPlaceholder + `"`, true}, {"signature", `""`, false}}, "unit", ""},
		{"work/results", []field{{"unitid", `"` + c08UnitPlaceholder + `"`, true}, {"startpos", `0`, true}, {"signature", `""`, false}}, "unit", "results"},
		{"work/submit", []field{{"node", `"n1"`, true}, {"worktype", `"echo"`, true}, {"tlsclient", `""`, false}, {"ttl", `""`, false}, {"signwork", `"false"`, false}, {"signature", `""`, false}, {"params", `"p"`, false}}, "", "submit"},
		{"work/bogus", []field{{"unitid", `"x"`, false}}, "", ""},
	}
	values := []struct{ kind, v string }{{"null", `null`}, {"bool", `true`}, {"number", `5`}, {"float", `1.5`}, {"string", `"zz"`}, {"empty-string", `""`}, {"array", `[]`}, {"array-mixed", `[1,"a",null]`}, {"object", `{}`}, {"object-nested", `{"a":{"b":1}}`}}
	build := func(c cmd, over map[string]string, drop string) string {
		parts := []string{}
		name := c.name
		if strings.HasPrefix(name, "work/") {
			parts = append(parts, `"command":"work"`, fmt.Sprintf(`"subcommand":%q`, strings.TrimPrefix(name, "work/")))
		} else {
			parts = append(parts, fmt.Sprintf(`"command":%q`, name))
		}
		for _, f := range c.fields {
			if f.name == drop {
				continue
			}
			v := f.good
			if o, ok := over[f.name]; ok {
				v = o
			}
			parts = append(parts, fmt.Sprintf("%q:%s", f.name, v))
		}
		return "{" + strings.Join(parts, ",") + "}"
	}
	for _, c := range cmds {
		base := c08Input{Name: "json " + c.name + " (all fields good)", Bytes: []byte(build(c, nil, "") + "\n"), Expect: "reply", Class: "json-" + c.name + "-good", Setup: c.setup}
		if c.name == "work/bogus" {
			base.Expect = "ERROR"
		}
		if c.then == "submit" {
			base.Bytes = append(base.Bytes, []byte("stdin data\n")...)
			base.Then = "eof"
		}
		if c.then == "results" {
			base.Expect = "reply"
		}
		ins = append(ins, base)
		for _, f := range c.fields {
			in := c08Input{Name: fmt.Sprintf("json %s without %s", c.name, f.name), Bytes: []byte(build(c, nil, f.name) + "\n"), Class: fmt.Sprintf("json-%s-%s-absent", c.name, f.name), Setup: c.setup, Expect: "reply"}
			if f.required {
				in.Expect = "ERROR"
			}
			if c.then == "submit" && !f.required {
				in.Bytes = append(in.Bytes, []byte("stdin\n")...)
				in.Then = "eof"
			}
			ins = append(ins, in)
			for _, v := range values {
				if v.v == f.good {
					continue
				}
				in := c08Input{Name: fmt.Sprintf("json %s %s=%s", c.name, f.name, v.v), Bytes: []byte(build(c, map[string]string{f.name: v.v}, "") + "\n"), Class: fmt.Sprintf("json-%s-%s-%s", c.name, f.name, v.kind), Setup: c.setup, Expect: "reply"}
				wrongType := !(strings.HasPrefix(v.v, `"`) && strings.HasPrefix(f.good, `"`)) && !(f.name == "startpos" && (v.kind == "number" || v.kind == "float" || v.kind == "string")) && !(f.name == "requested_fields" && strings.HasPrefix(v.kind, "array") && v.kind != "array-mixed")
				if f.required && wrongType {
					in.Expect = "ERROR"
				}
				if c.then == "submit" {
					// submit takes over the connection when it is accepted: send stdin and EOF, accept either outcome
					if in.Expect != "ERROR" {
						in.Bytes = append(in.Bytes, []byte("stdin\n")...)
						in.Then = "eof"
					}
				}
				ins = append(ins, in)
			}
		}
	}
	// the command field itself
	for _, v := range append(values, struct{ kind, v string }{"unknown", `"nosuchcommand"`}) {
		add("json-command-"+v.kind, "ERROR", "json command="+v.v, fmt.Sprintf(`{"command":%s}`, v.v))
	}
	// names of status fields: unknown, mixed with known ones, empty, repeated, wrong case
	for i, rf := range []string{`["NoSuchField"]`, `["NodeID","NoSuchField"]`, `["NoSuchField","NodeID"]`, `[""]`, `["NodeID","NodeID"]`, `["nodeid"]`, `["NodeID ",""," Connections"]`} {
		add(fmt.Sprintf("json-status-fieldnames-%d", i), "reply", "json status requested_fields="+rf, `{"command":"status","requested_fields":`+rf+`}`)
	}
	add("json-no-command", "ERROR", "json without command", `{"target":"n1"}`)
	add("json-empty-object", "ERROR", "json {}", `{}`)
	add("json-truncated", "ERROR", "json truncated", `{"command":"status"`)
	add("json-trailing", "ERROR", "json trailing garbage", `{"command":"status"}}`)
	add("json-dup-command", "reply", "json duplicate command keys", `{"command":"bogus","command":"status"}`)
	add("json-array-top", "ERROR", "top-level array", `[1,2]`)
	add("json-string-top", "ERROR", "top-level string", `"status"`)
	add("json-deep", "ERROR", "deep nesting", `{"command":`+strings.Repeat("[", 5000)+strings.Repeat("]", 5000)+`}`)
	add("json-huge-field", "reply", "1 MiB target", `{"command":"ping","target":"`+strings.Repeat("t", 1<<20)+`"}`)
	// unit ids
	for _, sub := range []string{"status", "cancel", "release", "force-release", "results", "list"} {
		for _, id := range []string{"nounit00", ".", "..", "a/b", "../n1", "", strings.Repeat("u", 5000), "%s%n", "\x00"} {
			sp := ""
			if sub == "results" {
				sp = `,"startpos":0`
			}
			expect := "ERROR"
			add("unitid-"+sub, expect, fmt.Sprintf("json work %s unitid=%q", sub, trunc(id, 12)), fmt.Sprintf(`{"command":"work","subcommand":%q,"unitid":%q%s}`, sub, id, sp))
		}
	}
	// junk
	add("junk-binary", "ERROR", "binary bytes", "\x01\x02\xff\xfe\x00abc")
	add("junk-1MiB-line", "ERROR", "1 MiB line", strings.Repeat("A", 1<<20))
	add("junk-cr", "reply", "status with CRLF", "status\r")
	add("junk-spaces", "ERROR", "leading space", " status")
	ins = append(ins, c08Input{Name: "unterminated line then EOF", Bytes: []byte("stat"), Expect: "any", Class: "junk-unterminated", Then: "eof"})
	ins = append(ins, c08Input{Name: "empty input then EOF", Bytes: []byte(""), Expect: "any", Class: "junk-empty-eof", Then: "eof"})
	ins = append(ins, c08Input{Name: "only newlines", Bytes: []byte("\n\n\r\n\n"), Expect: "any", Class: "junk-newlines", Then: "eof"})
	full := `{"command":"work","subcommand":"submit","node":"n1","worktype":"echo"}` + "\nsome stdin"
	step := 7
	if thorough {
		step = 1
	}
	for n := 0; n <= len(full); n += step {
		ins = append(ins, c08Input{Name: fmt.Sprintf("disconnect after %d bytes of a submit", n), Bytes: []byte(full[:n]), Expect: "any", Class: "disconnect-prefix", Then: "drop"})
	}
	// on-disk-only units, asked for by every sub-command
	for _, setup := range []string{"disk-unit-ok", "disk-unit-unknown-type", "disk-unit-nostatus", "disk-unit-corrupt"} {
		for _, sub := range []string{"status", "list", "results", "cancel", "release"} {
			sp := ""
			if sub == "results" {
				sp = " 0"
			}
			expect := "reply"
			ins = append(ins, c08Input{Name: fmt.Sprintf("work %s on %s", sub, setup), Bytes: []byte(fmt.Sprintf("work %s %s%s\n", sub, c08UnitPlaceholder, sp)), Expect: expect, Class: "disk-" + setup + "-" + sub, Setup: setup})
		}
	}
	return ins
}

func c08ConcCases(w *W) {
	menu := []string{"list", "submit", "status U0", "release U1", "cancel U0", "list U1"}
	bound := 2
	for i, a := range menu {
		for _, b := range menu[i:] {
			if a == b && a != "list" && a != "submit" {
				continue
			}
			cmds := []string{a, b}
			bound := bound
			if a == "submit" && b == "submit" && !w.Thorough() {
				bound = 1 // ~70 hook points per submission: two preemptions need the thorough tier's budget
			}
			w.explorerCase(fmt.Sprintf("concurrent sessions %v p=%d", cmds, bound), bound, func(r *xrun) []Violation { return runC08Conc(cmds, r) })
		}
	}
	triples := [][]string{{"list", "submit", "release U1"}, {"list", "submit", "status U0"}, {"list", "list", "submit"}}
	if w.Thorough() {
		triples = append(triples, []string{"submit", "submit", "list"}, []string{"list", "release U1", "cancel U0"}, []string{"status U0", "release U0", "list"})
	}
	for _, cmds := range triples {
		cmds := cmds
		b := 1
		if w.Thorough() {
			b = 2
		}
		w.explorerCase(fmt.Sprintf("concurrent sessions %v p=%d", cmds, b), b, func(r *xrun) []Violation { return runC08Conc(cmds, r) })
	}
}

func runC08(w *W) {
	c08ConcCases(w)
	menu := c08Menu(w.Thorough())
	for i, in := range menu {
		in := in
		w.Case(fmt.Sprintf("#%d %s", i, in.Name), func() CaseOut {
			o := runC08Input(w.T, []c08Input{in})
			if i%61 == 0 {
				o.Sample = map[string]any{"input": trunc(string(in.Bytes), 100), "expect": in.Expect, "outcome": o.Outcome}
			}
			return o
		})
	}
	// pairs of requests on one session: one representative per class that keeps the session open
	rep := map[string]c08Input{}
	var order []string
	for _, in := range menu {
		if in.Then != "" || in.Setup != "" && in.Setup != "unit" {
			continue
		}
		base := in.Class
		if i := strings.LastIndex(base, "-"); i > 0 && !w.Thorough() {
			base = base[:i]
		}
		if _, ok := rep[base]; !ok {
			rep[base] = in
			order = append(order, base)
		}
	}
	for _, a := range order {
		for _, b := range order {
			x, y := rep[a], rep[b]
			if strings.Contains(a, "results") || strings.Contains(a, "connect") {
				continue // these take over or close the connection
			}
			if len(x.Bytes) > 100000 || len(y.Bytes) > 100000 {
				continue
			}
			if x.Setup == "" && y.Setup != "" {
				x.Setup = y.Setup
			}
			w.Case(fmt.Sprintf("pair [%s] then [%s]", x.Name, y.Name), func() CaseOut {
				return runC08Input(w.T, []c08Input{x, y})
			})
		}
	}
}

func init() {
	register(&PropSpec{
		ID:        "C08",
		Level:     "exploration",
		Technique: "bounded-exhaustive enumeration of control-service inputs through the real RunControlSession/Workceptor (synctest bubble, in-memory connection), each followed by liveness probes on the same and on fresh sessions; reference grammar decides where an ERROR reply is required",
		Rule: "plain-text forms of every command word with 0..3 (thorough 4) tokens; for every built-in command and work sub-command every field absent or replaced by 10 JSON value kinds; the command field itself of every kind; truncated/trailing/deep/huge JSON; unit IDs {unknown, ., .., a/b, ../n1, empty, 5000 bytes, format verbs, NUL} x 6 sub-commands; binary junk, 1 MiB line, unterminated line + EOF, disconnect after every 7th (thorough: every) prefix of a submit; unit directories that exist only on disk (good / unknown work type / no status file / corrupt status) x 5 sub-commands; all ordered pairs of class representatives on one session; two (thorough: twelve) representatives of every input class also against the real daemon over its real Unix control socket. " +
			"All cases are distinct inputs and non-trivial (they reach the real parser). Oracle: process alive; ERROR reply where the reference grammar says invalid; `status` answered on the same session; `status` and `work list` answered on fresh sessions.",
		Assumptions: []string{"wrongly typed optional fields may be ignored or refused (only liveness is checked for them)", "a reply that does not arrive within 90 virtual seconds counts as missing; a frozen bubble (lock wait) is detected by the real-time watchdog"},
		Run:         runC08,
		Exec:        execC08,
		Coord:       coordC08,
		CaseTimeout: 200 * time.Second,
	})
}
