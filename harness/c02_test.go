package harness

import (
	"bytes"
	"context"
	"fmt"
	"io"
	"net"
	"sort"
	"strings"
	"testing"
	"testing/synctest"
	"time"

	"github.com/ansible/receptor/pkg/framer"
	"github.com/ansible/receptor/pkg/netceptor"
)

// C02 — datagrams arrive intact, only at the addressed service, with the true source.

func c02Pattern(kind string, n int) []byte {
	b := make([]byte, n)
	switch kind {
	case "zero":
	case "ff":
		for i := range b {
			b[i] = 0xff
		}
	case "ramp":
		for i := range b {
			b[i] = byte(i*7 + 3)
		}
	case "header":
		// looks like a framed data message: length prefix, type 0, hop count ...
		h := []byte{0x24, 0x00, 0x00, 0x1e, 0x00, 0x00}
		for i := range b {
			b[i] = h[i%len(h)]
		}
	}
	return b
}

type c02Recv struct {
	listener string // node:service
	payload  string
	from     string
}

// drainListeners reads everything that reached any listener (non-blocking: short virtual deadline).
func drainListeners(listeners map[string]netceptor.PacketConner) []c02Recv {
	var got []c02Recv
	keys := make([]string, 0, len(listeners))
	for k := range listeners {
		keys = append(keys, k)
	}
	sort.Strings(keys)
	for _, k := range keys {
		pc := listeners[k]
		for i := 0; i < 100; i++ {
			pc.SetReadDeadline(time.Now().Add(10 * time.Millisecond))
			buf := make([]byte, 70000)
			n, addr, err := pc.ReadFrom(buf)
			if err != nil {
				break
			}
			got = append(got, c02Recv{k, string(buf[:n]), addr.String()})
		}
		pc.SetReadDeadline(time.Time{})
	}
	return got
}

type c02Send struct {
	src, srcSvc, dst, dstSvc string
	payload                  []byte
}

func multiset(rs []c02Recv) map[string]int {
	m := map[string]int{}
	for _, r := range rs {
		m[fmt.Sprintf("%s <- %s [%d:%x]", r.listener, r.from, len(r.payload), hashKey(r.payload))]++
	}
	return m
}

// runC02Mesh: one topology, a set of listeners, batches of sends (each batch = concurrent senders in one
// macro-step), then everything is delivered and every listener drained.
func runC02Mesh(t *testing.T, names []string, edges []c01Edge, listenOn map[string][]string, batches [][]c02Send, class string) CaseOut {
	var out CaseOut
	out.Nontrivial = true
	bubble(t, func(t *testing.T) {
		m := newMesh(defaultConsts, names...)
		for _, e := range edges {
			m.upEdge(e)
		}
		m.closure(1)
		listeners := map[string]netceptor.PacketConner{}
		for node, svcs := range listenOn {
			for _, svc := range svcs {
				pc, err := m.nodes[node].ListenPacket(svc)
				if err != nil {
					out.violate("harness:c02-listen", "%s:%q: %v", node, svc, err)
					return
				}
				listeners[node+":"+svc] = pc
			}
		}
		senders := map[string]netceptor.PacketConner{}
		var want, got []c02Recv
		for _, batch := range batches {
			for _, s := range batch {
				key := s.src + ":" + s.srcSvc
				pc := senders[key]
				if pc == nil {
					var err error
					pc, err = m.nodes[s.src].ListenPacket(s.srcSvc)
					if err != nil {
						out.violate("harness:c02-sender", "%v", err)
						return
					}
					senders[key] = pc
				}
				// a local delivery is synchronous (the write returns when a reader has taken the datagram): the
				// listeners are drained while the write is in progress
				var n int
				var err error
				wdone := make(chan struct{})
				go func() {
					n, err = pc.WriteTo(s.payload, m.nodes[s.src].NewAddr(s.dst, s.dstSvc))
					close(wdone)
				}()
				for j := 0; j < 200; j++ {
					synctest.Wait()
					select {
					case <-wdone:
						j = 200
					default:
						got = append(got, drainListeners(listeners)...)
					}
				}
				select {
				case <-wdone:
				default:
					out.violate("dgram:write-never-returns:"+class, "WriteTo from %s to %s:%q did not return", key, s.dst, s.dstSvc)
					return
				}
				if err != nil || n != len(s.payload) {
					out.violate("dgram:write-result:"+class, "WriteTo(%d bytes) from %s to %s:%q returned %d, %v", len(s.payload), key, s.dst, s.dstSvc, n, err)
				}
				if _, ok := listeners[s.dst+":"+s.dstSvc]; ok {
					want = append(want, c02Recv{s.dst + ":" + s.dstSvc, string(s.payload), s.src + ":" + s.srcSvc})
				}
			}
			synctest.Wait()
			got = append(got, pumpDraining(m, listeners)...)
		}
		got = append(got, pumpDraining(m, listeners)...)
		// senders must not receive anything either
		for k, pc := range senders {
			pc.SetReadDeadline(time.Now().Add(5 * time.Millisecond))
			buf := make([]byte, 70000)
			if n, addr, err := pc.ReadFrom(buf); err == nil {
				out.violate("dgram:delivered-to-sender:"+class, "sender socket %s received %d bytes from %v", k, n, addr)
			}
		}
		wm, gm := multiset(want), multiset(got)
		for k, n := range wm {
			if gm[k] < n {
				out.violate("dgram:lost-or-altered:"+class, "expected %d x {%s}, got %d; received: %v", n, k, gm[k], keysOf(gm))
			}
		}
		for k, n := range gm {
			if wm[k] < n {
				out.violate("dgram:unexpected-delivery:"+class, "received %d x {%s}, expected %d; expected: %v", n, k, wm[k], keysOf(wm))
			}
		}
		out.count("datagrams_sent", len(want))
		out.Outcome = class
		m.end()
	})
	return out
}

// pumpDraining delivers everything in flight. A delivery to a listener blocks the receiving session
// until the datagram is read, so the listeners are drained while each delivery is in progress.
func pumpDraining(m *mesh, listeners map[string]netceptor.PacketConner) []c02Recv {
	var got []c02Recv
	for i := 0; i < 2000; i++ {
		moved := false
		for _, k := range m.sortedLinks() {
			s := m.sess[k]
			if s.pending() == 0 {
				continue
			}
			moved = true
			d := s.take(0)
			m.step++
			if m.isSilent(s.from, s.to) || s.isClosed() {
				continue
			}
			done := make(chan struct{})
			go func() { s.inject(d); close(done) }()
			for j := 0; j < 100; j++ {
				synctest.Wait()
				got = append(got, drainListeners(listeners)...)
				select {
				case <-done:
					j = 100
				default:
				}
			}
			synctest.Wait()
			got = append(got, drainListeners(listeners)...)
		}
		if !moved {
			break
		}
	}
	got = append(got, drainListeners(listeners)...)
	return got
}

func keysOf(m map[string]int) []string {
	var ks []string
	for k, v := range m {
		ks = append(ks, fmt.Sprintf("%dx %s", v, k))
	}
	sort.Strings(ks)
	if len(ks) > 8 {
		ks = ks[:8]
	}
	return ks
}

// ---- framing: every chunking of the byte stream ----------------------------------------------------------

type chunkConn struct {
	chunks [][]byte
	i      int
}

func (c *chunkConn) Read(p []byte) (int, error) {
	if c.i >= len(c.chunks) {
		return 0, io.EOF
	}
	n := copy(p, c.chunks[c.i])
	if n < len(c.chunks[c.i]) {
		c.chunks[c.i] = c.chunks[c.i][n:]
	} else {
		c.i++
	}
	return n, nil
}
func (c *chunkConn) Write(p []byte) (int, error)        { return len(p), nil }
func (c *chunkConn) Close() error                       { return nil }
func (c *chunkConn) LocalAddr() net.Addr                { return pipeAddr("l") }
func (c *chunkConn) RemoteAddr() net.Addr               { return pipeAddr("r") }
func (c *chunkConn) SetDeadline(t time.Time) error      { return nil }
func (c *chunkConn) SetReadDeadline(t time.Time) error  { return nil }
func (c *chunkConn) SetWriteDeadline(t time.Time) error { return nil }

func frameStream(frames [][]byte) []byte {
	f := framer.New()
	var s []byte
	for _, fr := range frames {
		s = append(s, f.SendData(fr)...)
	}
	return s
}

func splitAt(stream []byte, cuts []int) [][]byte {
	var chunks [][]byte
	prev := 0
	for _, c := range cuts {
		chunks = append(chunks, append([]byte(nil), stream[prev:c]...))
		prev = c
	}
	chunks = append(chunks, append([]byte(nil), stream[prev:]...))
	return chunks
}

// checkChunking reads the chunked stream through the real netMessageConn reader and through the bare framer.
func checkChunking(frames [][]byte, cuts []int) (string, bool) {
	stream := frameStream(frames)
	// (1) netMessageConn (ExternalBackend / TCP-style reader)
	mc := netceptor.MessageConnFromNetConn(&chunkConn{chunks: splitAt(stream, cuts)})
	var got [][]byte
	for i := 0; i < len(frames)+2; i++ {
		msg, err := mc.ReadMessage(context.Background(), time.Second)
		if err != nil {
			break
		}
		got = append(got, msg)
	}
	if !sameFrames(got, frames) {
		return fmt.Sprintf("netMessageConn: frames %s cuts %v: read %s", frameDesc(frames), cuts, frameDesc(got)), false
	}
	// (2) the framer alone
	f := framer.New()
	var got2 [][]byte
	for _, ch := range splitAt(stream, cuts) {
		f.RecvData(ch)
		for f.MessageReady() {
			msg, err := f.GetMessage()
			if err != nil {
				break
			}
			got2 = append(got2, append([]byte(nil), msg...))
		}
	}
	if !sameFrames(got2, frames) {
		return fmt.Sprintf("framer: frames %s cuts %v: read %s", frameDesc(frames), cuts, frameDesc(got2)), false
	}
	return "", true
}

func sameFrames(a, b [][]byte) bool {
	if len(a) != len(b) {
		return false
	}
	for i := range a {
		if !bytes.Equal(a[i], b[i]) {
			return false
		}
	}
	return true
}

func frameDesc(fs [][]byte) string {
	var s []string
	for _, f := range fs {
		s = append(s, fmt.Sprintf("%d:%x", len(f), hashKey(string(f))[:6]))
	}
	return "[" + strings.Join(s, " ") + "]"
}

func runC02Framing(w *W) {
	sizes := []int{0, 1, 2, 300}
	maxFrames := 2
	if w.Thorough() {
		maxFrames = 3
	}
	var seqs [][]int
	var rec func(p []int)
	rec = func(p []int) {
		if len(p) > 0 {
			seqs = append(seqs, append([]int{}, p...))
		}
		if len(p) == maxFrames {
			return
		}
		for _, s := range sizes {
			rec(append(append([]int{}, p...), s))
		}
	}
	rec(nil)
	for _, sq := range seqs {
		sq := sq
		w.Case(fmt.Sprintf("framing sizes=%v", sq), func() CaseOut {
			var out CaseOut
			out.Nontrivial = true
			var frames [][]byte
			for i, n := range sq {
				frames = append(frames, c02Pattern([]string{"ramp", "header", "ff"}[i%3], n))
			}
			stream := frameStream(frames)
			n := len(stream)
			tried := 0
			fail := func(msg string) {
				out.violate("frame:chunking-changes-messages", "%s", msg)
			}
			if n <= 14 {
				// every chunking: each of the n-1 inner positions is a cut or not
				for mask := 0; mask < 1<<(n-1); mask++ {
					var cuts []int
					for i := 0; i < n-1; i++ {
						if mask&(1<<i) != 0 {
							cuts = append(cuts, i+1)
						}
					}
					tried++
					if msg, ok := checkChunking(frames, cuts); !ok {
						fail(msg)
						break
					}
				}
			} else {
				// coalesced, every single cut, every pair of cuts among the positions around frame boundaries
				tried++
				if msg, ok := checkChunking(frames, nil); !ok {
					fail(msg)
				}
				for c := 1; c < n; c++ {
					tried++
					if msg, ok := checkChunking(frames, []int{c}); !ok {
						fail(msg)
						break
					}
				}
				var near []int
				pos := 0
				for _, f := range frames {
					for d := -2; d <= 4; d++ {
						if p := pos + d; p > 0 && p < n {
							near = append(near, p)
						}
					}
					pos += 2 + len(f)
				}
				sort.Ints(near)
				for i := 0; i < len(near); i++ {
					for j := i + 1; j < len(near); j++ {
						if near[i] == near[j] {
							continue
						}
						tried++
						if msg, ok := checkChunking(frames, []int{near[i], near[j]}); !ok {
							fail(msg)
							i = len(near)
							break
						}
					}
				}
				// byte by byte
				var all []int
				for c := 1; c < n; c++ {
					all = append(all, c)
				}
				tried++
				if msg, ok := checkChunking(frames, all); !ok {
					fail(msg)
				}
			}
			out.count("chunkings", tried)
			out.Outcome = fmt.Sprintf("framing frames=%d", len(sq))
			if len(sq) == 2 && sq[0] == 1 && sq[1] == 2 {
				out.Sample = map[string]any{"frame_sizes": sq, "stream_bytes": n, "chunkings_tried": tried}
			}
			return out
		})
	}
}

func runC02(w *W) {
	e := func(x, y string, c float64) c01Edge { return c01Edge{X: x, Y: y, Cost: c} }
	chain := func(names ...string) []c01Edge {
		var es []c01Edge
		for i := 0; i+1 < len(names); i++ {
			es = append(es, e(names[i], names[i+1], 1))
		}
		return es
	}
	// (a) codec: payload sizes x patterns over one and two hops
	sizes := []int{0, 1, 2, 35, 36, 37, 255, 256, 4095, 16383, 16384}
	pats := []string{"zero", "ff", "ramp", "header"}
	for _, hops := range []int{1, 2} {
		names := []string{"a", "b", "c"}[:hops+1]
		dst := names[hops]
		for _, pat := range pats {
			if !w.Thorough() && hops == 2 && (pat == "zero" || pat == "ff") {
				continue
			}
			var batches [][]c02Send
			for _, n := range sizes {
				batches = append(batches, []c02Send{{"a", "snd", dst, "rcv", c02Pattern(pat, n)}})
			}
			w.Case(fmt.Sprintf("codec hops=%d pattern=%s", hops, pat), func() CaseOut {
				return runC02Mesh(w.T, names, chain(names...), map[string][]string{dst: {"rcv"}}, batches, "payload-"+pat)
			})
		}
	}
	// (b) service names: boundary characters, every length, names that are prefixes of each other bound together
	var svcNames []string
	for l := 1; l <= 8; l++ {
		for _, ch := range []string{"a", "\x01", "\xff", " "} {
			svcNames = append(svcNames, strings.Repeat(ch, l))
		}
		svcNames = append(svcNames, ("a\x01\xff b\x00cd")[:l])
	}
	svcNames = append(svcNames, "ab", "abc", "abcdefgh", "abcdefg", "ping2", "unreach2", "Ab")
	{
		seen := map[string]bool{}
		var u []string
		for _, s := range svcNames {
			if !seen[s] {
				seen[s] = true
				u = append(u, s)
			}
		}
		svcNames = u
	}
	for i := 0; i < len(svcNames); i += 8 {
		group := svcNames[i:min(i+8, len(svcNames))]
		w.Case(fmt.Sprintf("service names %q", group), func() CaseOut {
			// all names of the group are bound on b at once; each gets one datagram with a distinct payload
			var batches [][]c02Send
			var valid []string
			for _, s := range group {
				if strings.ContainsRune(s, 0) {
					continue // names of non-zero bytes only
				}
				valid = append(valid, s)
			}
			for j, s := range valid {
				batches = append(batches, []c02Send{{"a", "snd", "b", s, []byte(fmt.Sprintf("to-%d", j))}})
			}
			return runC02Mesh(w.T, []string{"a", "b"}, chain("a", "b"), map[string][]string{"b": valid, "a": {"abc"}}, batches, "service-names")
		})
	}
	// datagrams for a name that is a prefix / extension / case variant of a bound one reach nobody
	w.Case("near-miss service names", func() CaseOut {
		var batches [][]c02Send
		for _, s := range []string{"ab", "abcd", "ABC", "abc ", " abc", "abc\x01"} {
			batches = append(batches, []c02Send{{"a", "snd", "b", s, []byte("miss-" + s)}})
		}
		batches = append(batches, []c02Send{{"a", "snd", "b", "abc", []byte("hit")}})
		return runC02Mesh(w.T, []string{"a", "b"}, chain("a", "b"), map[string][]string{"b": {"abc"}}, batches, "near-miss-names")
	})
	// (c) node IDs
	for _, ids := range [][]string{{"x", "y"}, {strings.Repeat("n", 64), "y"}, {"nöde-ü", "y"}, {"n:1 x", "y:2"}, {"a", "ab"}, {"Node", "node"}} {
		ids := ids
		w.Case(fmt.Sprintf("node ids %q", ids), func() CaseOut {
			b := [][]c02Send{{{ids[0], "snd", ids[1], "rcv", []byte("one")}}, {{ids[1], "snd2", ids[0], "rcv", []byte("two")}}}
			return runC02Mesh(w.T, ids, chain(ids...), map[string][]string{ids[0]: {"rcv"}, ids[1]: {"rcv"}}, b, "node-ids")
		})
	}
	// (d) routing: hops, two paths, several listeners per node, concurrent senders in one macro-step
	type topo struct {
		name  string
		names []string
		edges []c01Edge
	}
	topos := []topo{
		{"chain2", []string{"a", "b"}, chain("a", "b")},
		{"chain3", []string{"a", "b", "c"}, chain("a", "b", "c")},
		{"chain4", []string{"a", "b", "c", "d"}, chain("a", "b", "c", "d")},
		{"square", []string{"a", "b", "c", "d"}, []c01Edge{e("a", "b", 1), e("b", "c", 1), e("c", "d", 1), e("d", "a", 1)}},
	}
	for _, tp := range topos {
		tp := tp
		listen := map[string][]string{}
		for _, n := range tp.names {
			listen[n] = []string{"svc", "sv", "svcx"}
		}
		for _, nsend := range []int{1, 2, 3} {
			w.Case(fmt.Sprintf("routing topo=%s senders=%d", tp.name, nsend), func() CaseOut {
				var batches [][]c02Send
				k := 0
				for _, dst := range tp.names {
					for _, svc := range []string{"svc", "sv", "svcx"} {
						var batch []c02Send
						for i := 0; i < nsend; i++ {
							src := tp.names[(k+i)%len(tp.names)]
							if src == dst {
								continue // local delivery is synchronous; covered by the codec cases
							}
							batch = append(batch, c02Send{src, fmt.Sprintf("s%d", i), dst, svc, []byte(fmt.Sprintf("%s>%s:%s#%d", src, dst, svc, k))})
						}
						k++
						if len(batch) > 0 {
							batches = append(batches, batch)
						}
					}
				}
				return runC02Mesh(w.T, tp.names, tp.edges, listen, batches, "routing-"+tp.name)
			})
		}
	}
	runC02Framing(w)
}

func init() {
	register(&PropSpec{
		ID:        "C02",
		Level:     "exploration",
		Technique: "bounded-exhaustive enumeration of payloads, names, paths and stream chunkings through real nodes in a synctest bubble (every listener of every node drained and compared with the multiset implied by the sends) and through the real framed-stream reader",
		Rule: "payload lengths {0,1,2,35,36,37,255,256,4095,16383,16384} x patterns {zero, 0xFF, ramp, frame-header look-alike} over 1 and 2 hops; service names of every length 1..8 over {a, 0x01, 0xFF, space} and mixed, names that are prefixes/extensions/case variants of each other bound together, near-miss names; node IDs {1 byte, 64 bytes, UTF-8, containing ':' and space, prefix of each other, case variants}; chains of 1-3 hops and the two-path square with three look-alike listeners per node and 1-3 concurrent senders per macro-step; framing: every frame sequence of <=2 (thorough 3) frames of sizes {0,1,2,300}: every chunking of streams <=14 bytes, and for longer ones coalesced, every single cut, every pair of cuts near frame boundaries, byte-by-byte. " +
			"Each case is distinct and non-trivial. Oracle: the multiset of (listener, payload, source address) read from all listeners equals the one implied by the sends; WriteTo returns len(p).",
		Assumptions: []string{"64-bit name-hash collisions are not enumerable", "UDP/websocket/TCP sockets are represented by the shared framer and the message loop; links deliver FIFO"},
		Run:         runC02,
		CaseTimeout: 120 * time.Second,
	})
}
