package harness

import (
	"crypto/rand"
	"crypto/rsa"
	"crypto/tls"
	"crypto/x509"
	"crypto/x509/pkix"
	"encoding/asn1"
	"fmt"
	"io"
	"math/big"
	"net"
	"strings"
	"sync"
	"time"
	"unicode/utf8"

	"github.com/ansible/receptor/pkg/certificates"
	"github.com/ansible/receptor/pkg/logger"
	"github.com/ansible/receptor/pkg/netceptor"
	"github.com/ansible/receptor/pkg/utils"
)

// C20 — issued certificates carry exactly the requested names and verify as those IDs.

var (
	c20Once sync.Once
	c20CA   *certificates.CA
	c20Key  *rsa.PrivateKey
	c20Pool *x509.CertPool
)

func c20Setup() {
	c20Once.Do(func() {
		var err error
		c20CA, err = certificates.CreateCA(&certificates.CertOptions{CommonName: "verif CA", Bits: 2048, NotBefore: time.Now().AddDate(-5, 0, 0)}, &certificates.RsaWrapper{})
		if err != nil {
			panic(err)
		}
		c20Key, err = rsa.GenerateKey(rand.Reader, 2048)
		if err != nil {
			panic(err)
		}
		c20Pool = x509.NewCertPool()
		c20Pool.AddCert(c20CA.Certificate)
	})
}

func quietLogger() *logger.ReceptorLogger {
	l := logger.NewReceptorLogger("")
	l.SetOutput(io.Discard)
	return l
}

type c20Case struct {
	IDs    []string
	DNS    []string
	IPs    []string
	NewKey bool
	Window int // 0: defaults, 1: explicit window around now, 2: explicit window in the past
}

func idClass(s string) string {
	switch {
	case len(s) == 0:
		return "empty"
	case !utf8.ValidString(s):
		return "invalid-utf8"
	case len(s) >= 65536:
		return "len>=64k"
	case len(s) >= 256:
		return "len>=256"
	case len(s) >= 100:
		return "len>=100" // the DER length of the otherName no longer fits one byte somewhere above this
	}
	return "short"
}

func eqStrings(a, b []string) bool {
	if len(a) != len(b) {
		return false
	}
	for i := range a {
		if a[i] != b[i] {
			return false
		}
	}
	return true
}

func short(s string) string {
	if len(s) > 24 {
		return fmt.Sprintf("%q…(%d bytes)", s[:12], len(s))
	}
	return fmt.Sprintf("%q", s)
}

func shortList(l []string) string {
	var o []string
	for _, s := range l {
		o = append(o, short(s))
	}
	return "[" + strings.Join(o, ",") + "]"
}

func checkC20(c c20Case) CaseOut {
	c20Setup()
	var out CaseOut
	out.Nontrivial = len(c.IDs)+len(c.DNS)+len(c.IPs) > 0
	worst := "none"
	for _, id := range c.IDs {
		cl := idClass(id)
		if cl != "short" {
			worst = cl
		}
	}
	opts := &certificates.CertOptions{CommonName: "cn", Bits: 2048}
	opts.NodeIDs = c.IDs
	opts.DNSNames = c.DNS
	var ips []net.IP
	for _, s := range c.IPs {
		ips = append(ips, net.ParseIP(s))
	}
	opts.IPAddresses = ips
	var req *x509.CertificateRequest
	var err error
	if c.NewKey {
		req, _, err = certificates.CreateCertReqWithKey(opts)
	} else {
		req, err = certificates.CreateCertReq(opts, c20Key)
	}
	if err != nil {
		// refusing is allowed by the statement only when the request cannot be represented
		allValid := true
		for _, id := range c.IDs {
			if !utf8.ValidString(id) {
				allValid = false
			}
		}
		if allValid && worst != "len>=64k" {
			out.violate("cert:request-refused:"+worst, "CreateCertReq refused representable names ids=%s: %v", shortList(c.IDs), err)
		}
		out.Outcome = "refused"
		return out
	}
	names, err := certificates.GetReqNames(req)
	if err != nil && worst == "invalid-utf8" {
		// outside the quantifier (not UTF-8): an error instead of a name is what the statement allows
		out.Outcome = "invalid-utf8-unreadable"
		return out
	}
	if err != nil {
		out.violate("cert:request-unreadable:"+worst, "request was produced for ids=%s but its names cannot be read back: %v", shortList(c.IDs), err)
		out.Outcome = "req-unreadable"
		return out
	}
	if !eqStrings(names.NodeIDs, c.IDs) && !(len(names.NodeIDs) == 0 && len(c.IDs) == 0) {
		out.violate("cert:request-different-ids:"+worst, "request for ids=%s reads back %s", shortList(c.IDs), shortList(names.NodeIDs))
	}
	if !eqStrings(names.DNSNames, c.DNS) && !(len(names.DNSNames) == 0 && len(c.DNS) == 0) {
		out.violate("cert:request-different-dns", "request for dns=%v reads back %v", c.DNS, names.DNSNames)
	}
	if !eqIPs(names.IPAddresses, ips) {
		out.violate("cert:request-different-ips", "request for ips=%v reads back %v", c.IPs, names.IPAddresses)
	}
	sopts := &certificates.CertOptions{}
	now := time.Now()
	switch c.Window {
	case 1:
		sopts.NotBefore = now.Add(-time.Hour).Truncate(time.Second)
		sopts.NotAfter = now.Add(48 * time.Hour).Truncate(time.Second)
	case 2:
		sopts.NotBefore = now.Add(-48 * time.Hour).Truncate(time.Second)
		sopts.NotAfter = now.Add(-24 * time.Hour).Truncate(time.Second)
	}
	cert, err := certificates.SignCertReq(req, c20CA, sopts)
	if err != nil {
		out.violate("cert:sign-failed:"+worst, "SignCertReq failed for ids=%s: %v", shortList(c.IDs), err)
		out.Outcome = "sign-failed"
		return out
	}
	if c.Window != 0 {
		if !cert.NotBefore.Equal(sopts.NotBefore) || !cert.NotAfter.Equal(sopts.NotAfter) {
			out.violate("cert:validity-window", "requested window %v..%v, certificate has %v..%v", sopts.NotBefore, sopts.NotAfter, cert.NotBefore, cert.NotAfter)
		}
	}
	ids, err := utils.ReceptorNames(cert.Extensions)
	if err != nil {
		out.violate("cert:cert-unreadable:"+worst, "certificate issued for ids=%s but its names cannot be read back: %v", shortList(c.IDs), err)
		out.Outcome = "cert-unreadable"
		return out
	}
	if !eqStrings(ids, c.IDs) && !(len(ids) == 0 && len(c.IDs) == 0) {
		out.violate("cert:cert-different-ids:"+worst, "certificate for ids=%s reads back %s", shortList(c.IDs), shortList(ids))
	}
	if !eqStrings(cert.DNSNames, c.DNS) && !(len(cert.DNSNames) == 0 && len(c.DNS) == 0) {
		out.violate("cert:cert-different-dns", "certificate for dns=%v has %v", c.DNS, cert.DNSNames)
	}
	if !eqIPs(cert.IPAddresses, ips) {
		out.violate("cert:cert-different-ips", "certificate for ips=%v has %v", c.IPs, cert.IPAddresses)
	}
	// chains to the authority (at a time inside its validity window)
	at := cert.NotBefore.Add(time.Minute)
	if _, err := cert.Verify(x509.VerifyOptions{Roots: c20Pool, CurrentTime: at, KeyUsages: []x509.ExtKeyUsage{x509.ExtKeyUsageServerAuth}}); err != nil {
		out.violate("cert:no-chain", "issued certificate does not chain to the CA: %v", err)
	}
	// receptor's own verification: every requested ID accepted, nothing else
	if c.Window != 2 {
		cfg := &tls.Config{RootCAs: c20Pool, ClientCAs: c20Pool}
		verify := func(expect string, vt netceptor.VerifyType) error {
			f := netceptor.ReceptorVerifyFunc(cfg, nil, expect, netceptor.ExpectedHostnameTypeReceptor, vt, quietLogger())
			return f([][]byte{cert.Raw}, nil)
		}
		want := map[string]bool{}
		for _, id := range c.IDs {
			want[id] = true
		}
		probes := map[string]bool{"": true, "other": true}
		for _, id := range c.IDs {
			probes[id] = true
			probes[id+"x"] = true
			if len(id) > 0 {
				probes[id[:len(id)-1]] = true
			}
			probes[strings.ToUpper(id)] = true
			probes[strings.ToLower(id)] = true
		}
		for p := range probes {
			for _, vt := range []netceptor.VerifyType{netceptor.VerifyServer, netceptor.VerifyClient} {
				err := verify(p, vt)
				if want[p] && err != nil {
					out.violate("cert:own-id-rejected:"+worst, "certificate issued for ids=%s is rejected for requested id %s: %v", shortList(c.IDs), short(p), err)
				}
				if !want[p] && err == nil {
					out.violate("cert:foreign-id-accepted", "certificate issued for ids=%s is accepted for id %s", shortList(c.IDs), short(p))
				}
			}
		}
	}
	out.Outcome = fmt.Sprintf("ok ids=%d dns=%d ips=%d class=%s", len(c.IDs), len(c.DNS), len(c.IPs), worst)
	return out
}

// craftedCert signs a certificate whose subjectAltName is given as raw GeneralName values.
func craftedCert(general []asn1.RawValue) (*x509.Certificate, error) {
	c20Setup()
	san, err := asn1.Marshal(general)
	if err != nil {
		return nil, err
	}
	tmpl := &x509.Certificate{
		SerialNumber:    big.NewInt(77),
		Subject:         pkix.Name{CommonName: "crafted"},
		NotBefore:       time.Now().Add(-time.Hour),
		NotAfter:        time.Now().Add(time.Hour),
		KeyUsage:        x509.KeyUsageDigitalSignature,
		ExtKeyUsage:     []x509.ExtKeyUsage{x509.ExtKeyUsageClientAuth, x509.ExtKeyUsageServerAuth},
		ExtraExtensions: []pkix.Extension{{Id: utils.OIDSubjectAltName, Value: san}},
	}
	der, err := x509.CreateCertificate(rand.Reader, tmpl, c20CA.Certificate, &c20Key.PublicKey, c20CA.PrivateKey)
	if err != nil {
		return nil, err
	}
	return x509.ParseCertificate(der)
}

func otherName(oid asn1.ObjectIdentifier, value string) asn1.RawValue {
	type utf struct {
		A string `asn1:"utf8"`
	}
	type on struct {
		OID   asn1.ObjectIdentifier
		Value utf `asn1:"tag:0"`
	}
	b, _ := asn1.Marshal(on{OID: oid, Value: utf{A: value}})
	var seq asn1.RawValue
	asn1.Unmarshal(b, &seq)
	return asn1.RawValue{Tag: 0, Class: 2, IsCompound: true, Bytes: seq.Bytes}
}

// checkCrafted: certificates not made by the tooling — names of other kinds must never be read as node IDs.
func checkCrafted(name string, general []asn1.RawValue, wantIDs []string, mustReject []string) CaseOut {
	var out CaseOut
	out.Nontrivial = true
	cert, err := craftedCert(general)
	if err != nil {
		out.Outcome = "crafted-unsignable"
		return out
	}
	ids, err := utils.ReceptorNames(cert.Extensions)
	if err != nil {
		out.Outcome = "crafted-error"
		return out
	}
	if !eqStrings(ids, wantIDs) && !(len(ids) == 0 && len(wantIDs) == 0) {
		out.violate("cert:crafted-different-ids:"+name, "crafted certificate %s encodes node IDs %v but ReceptorNames returns %v", name, wantIDs, ids)
	}
	cfg := &tls.Config{RootCAs: c20Pool, ClientCAs: c20Pool}
	for _, p := range mustReject {
		f := netceptor.ReceptorVerifyFunc(cfg, nil, p, netceptor.ExpectedHostnameTypeReceptor, netceptor.VerifyServer, quietLogger())
		if f([][]byte{cert.Raw}, nil) == nil {
			out.violate("cert:crafted-accepted:"+name, "crafted certificate %s (node IDs %v) is accepted as node %q", name, wantIDs, p)
		}
	}
	for _, p := range wantIDs {
		f := netceptor.ReceptorVerifyFunc(cfg, nil, p, netceptor.ExpectedHostnameTypeReceptor, netceptor.VerifyServer, quietLogger())
		if err := f([][]byte{cert.Raw}, nil); err != nil {
			out.violate("cert:crafted-rejected:"+name, "crafted certificate %s is rejected for its node ID %q: %v", name, p, err)
		}
	}
	out.Outcome = "crafted-ok"
	return out
}

// checkForeignRequest: a request that was NOT made by receptor's own tooling and asks for more than names
// (CA flag, certificate-signing key usage, name constraints, a private extension). The signing step copies the
// requested names and nothing else: the certificate is an end-entity certificate for exactly these names, and
// nothing minted with it is accepted.
func checkForeignRequest(name string, extra []pkix.Extension) CaseOut {
	c20Setup()
	var out CaseOut
	out.Nontrivial = true
	san, err := utils.MakeReceptorSAN([]string{"edge.example"}, nil, []string{"edge-7"})
	if err != nil {
		out.violate("harness:c20-san", "%v", err)
		return out
	}
	tmpl := &x509.CertificateRequest{Subject: pkix.Name{CommonName: "edge-7"}, ExtraExtensions: append([]pkix.Extension{*san}, extra...)}
	der, err := x509.CreateCertificateRequest(rand.Reader, tmpl, c20Key)
	if err != nil {
		out.Outcome = "request-not-encodable"
		return out
	}
	req, err := x509.ParseCertificateRequest(der)
	if err != nil {
		out.Outcome = "request-not-parsable"
		return out
	}
	cert, err := certificates.SignCertReq(req, c20CA, &certificates.CertOptions{})
	if err != nil {
		out.Outcome = "sign-refused" // refusing such a request is fine
		return out
	}
	ctx := "request with " + name
	if cert.IsCA {
		out.violate("cert:foreign-request:issued-a-ca", "%s: the issued certificate is a CA certificate", ctx)
	}
	if cert.KeyUsage&(x509.KeyUsageCertSign|x509.KeyUsageCRLSign) != 0 {
		out.violate("cert:foreign-request:signing-key-usage", "%s: the issued certificate may sign certificates / CRLs (key usage %#x)", ctx, int(cert.KeyUsage))
	}
	allowed := map[string]bool{"2.5.29.17": true, "2.5.29.15": true, "2.5.29.37": true, "2.5.29.19": true, "2.5.29.35": true, "2.5.29.14": true}
	for _, e := range cert.Extensions {
		if !allowed[e.Id.String()] {
			out.violate("cert:foreign-request:copied-extension", "%s: the issued certificate carries extension %s, which is not a name", ctx, e.Id)
		}
	}
	if ids, err := utils.ReceptorNames(cert.Extensions); err != nil || !eqStrings(ids, []string{"edge-7"}) {
		out.violate("cert:cert-different-ids:foreign-request", "%s: names read back %v, %v", ctx, ids, err)
	}
	// mint a certificate for another node with the issued one and present the chain
	lkey, _ := rsa.GenerateKey(rand.Reader, 2048)
	lsan, _ := utils.MakeReceptorSAN(nil, nil, []string{"controller"})
	lt := &x509.Certificate{SerialNumber: big.NewInt(77), Subject: pkix.Name{CommonName: "controller"}, NotBefore: time.Now().Add(-time.Hour), NotAfter: time.Now().Add(time.Hour),
		KeyUsage: x509.KeyUsageDigitalSignature, ExtKeyUsage: []x509.ExtKeyUsage{x509.ExtKeyUsageServerAuth, x509.ExtKeyUsageClientAuth}, ExtraExtensions: []pkix.Extension{*lsan}}
	if lder, err := x509.CreateCertificate(rand.Reader, lt, cert, &lkey.PublicKey, c20Key); err == nil {
		cfg := &tls.Config{RootCAs: c20Pool, ClientCAs: c20Pool}
		for _, vt := range []netceptor.VerifyType{netceptor.VerifyServer, netceptor.VerifyClient} {
			f := netceptor.ReceptorVerifyFunc(cfg, nil, "controller", netceptor.ExpectedHostnameTypeReceptor, vt, quietLogger())
			if f([][]byte{lder, cert.Raw}, nil) == nil {
				out.violate("cert:foreign-request:minted-identity-accepted", "%s: a certificate for node \"controller\" minted with the issued certificate is accepted by receptor's verification", ctx)
			}
		}
	}
	out.Outcome = "foreign-request-ok"
	return out
}

func eqIPs(a, b []net.IP) bool {
	if len(a) != len(b) {
		return false
	}
	for i := range a {
		if !a[i].Equal(b[i]) {
			return false
		}
	}
	return true
}

func runC20(w *W) {
	unit := map[string]string{"ascii": "n", "utf8-2": "é", "utf8-3": "€"}
	var lengths []int
	for n := 0; n <= 300; n++ {
		lengths = append(lengths, n)
	}
	lengths = append(lengths, 1000, 16383, 16384, 65535, 65536, 70000)
	for _, kind := range []string{"ascii", "utf8-2", "utf8-3"} {
		u := unit[kind]
		for _, n := range lengths {
			if !w.Thorough() && kind != "ascii" && n > 140 && n%7 != 0 {
				continue
			}
			// n counts bytes: pad with ASCII so that every byte length is hit
			reps := n / len(u)
			id := strings.Repeat(u, reps) + strings.Repeat("p", n-reps*len(u))
			c := c20Case{IDs: []string{id}}
			w.Case(fmt.Sprintf("single %s len=%d", kind, n), func() CaseOut {
				o := checkC20(c)
				if n%50 == 0 {
					o.Sample = map[string]any{"ids": shortList(c.IDs), "outcome": o.Outcome}
				}
				return o
			})
		}
	}
	for _, bad := range []string{"\xff", "ab\xc3", "\xed\xa0\x80", "a\x00b"} {
		c := c20Case{IDs: []string{bad}}
		w.Case(fmt.Sprintf("single odd %q", bad), func() CaseOut { return checkC20(c) })
	}
	// lists of 0..3 ids from a menu (incl. duplicates, long + short mixed), with DNS/IP names
	menu := []string{"a", "node-1", "Node-1", strings.Repeat("L", 130), "ü"}
	dnsSets := [][]string{nil, {"host.example.com"}, {"a.example", "*.b.example"}}
	ipSets := [][]string{nil, {"10.0.0.1"}, {"::1", "192.168.1.1", "::ffff:10.1.2.3"}, {"2001:db8::1"}}
	var lists [][]string
	lists = append(lists, nil)
	for _, a := range menu {
		lists = append(lists, []string{a})
		for _, b := range menu {
			lists = append(lists, []string{a, b})
			if w.Thorough() {
				for _, c := range menu {
					lists = append(lists, []string{a, b, c})
				}
			}
		}
	}
	for li, l := range lists {
		for di, d := range dnsSets {
			for ii, ip := range ipSets {
				if !w.Thorough() && (li+di+ii)%3 != 0 && len(l) > 1 {
					continue
				}
				for win := 0; win < 3; win++ {
					if win > 0 && (li+di+ii)%5 != 0 {
						continue
					}
					c := c20Case{IDs: l, DNS: d, IPs: ip, Window: win}
					w.Case(fmt.Sprintf("list ids=%s dns=%v ips=%v win=%d", shortList(l), d, ip, win), func() CaseOut { return checkC20(c) })
				}
			}
		}
	}
	// requests made by other tools that ask for more than names
	{
		bcCA, _ := asn1.Marshal(struct {
			IsCA bool `asn1:"optional"`
		}{true})
		ku, _ := asn1.Marshal(asn1.BitString{Bytes: []byte{0x06}, BitLength: 7}) // keyCertSign | cRLSign
		kuAll, _ := asn1.Marshal(asn1.BitString{Bytes: []byte{0xfe}, BitLength: 7})
		nc, _ := asn1.Marshal([]asn1.RawValue{})
		priv, _ := asn1.Marshal("hello")
		ext := func(oid []int, crit bool, v []byte) pkix.Extension {
			return pkix.Extension{Id: asn1.ObjectIdentifier(oid), Critical: crit, Value: v}
		}
		menu := map[string][]pkix.Extension{
			"basicConstraints CA:TRUE":                {ext([]int{2, 5, 29, 19}, true, bcCA)},
			"keyUsage keyCertSign+cRLSign":            {ext([]int{2, 5, 29, 15}, true, ku)},
			"CA:TRUE and keyCertSign":                 {ext([]int{2, 5, 29, 19}, true, bcCA), ext([]int{2, 5, 29, 15}, true, ku)},
			"every key usage":                         {ext([]int{2, 5, 29, 15}, false, kuAll)},
			"empty nameConstraints":                   {ext([]int{2, 5, 29, 30}, false, nc)},
			"private extension 1.3.6.1.4.1.99999.1":   {ext([]int{1, 3, 6, 1, 4, 1, 99999, 1}, false, priv)},
			"CA:TRUE, keyCertSign, private extension": {ext([]int{2, 5, 29, 19}, true, bcCA), ext([]int{2, 5, 29, 15}, true, ku), ext([]int{1, 3, 6, 1, 4, 1, 99999, 1}, false, priv)},
			"nothing extra": nil,
		}
		for name, exts := range menu {
			name, exts := name, exts
			w.Case("foreign request "+name, func() CaseOut { return checkForeignRequest(name, exts) })
		}
	}
	// crafted certificates: other name kinds next to / instead of receptor names
	upn := asn1.ObjectIdentifier{1, 3, 6, 1, 4, 1, 311, 20, 2, 3}
	near := asn1.ObjectIdentifier{1, 3, 6, 1, 4, 1, 2312, 19, 2}
	dns := func(n string) asn1.RawValue { return asn1.RawValue{Tag: 2, Class: 2, Bytes: []byte(n)} }
	type crafted struct {
		name   string
		gen    []asn1.RawValue
		want   []string
		reject []string
	}
	for _, cr := range []crafted{
		{"foreign-oid-only", []asn1.RawValue{otherName(upn, "evil")}, nil, []string{"evil", ""}},
		{"neighbour-oid-only", []asn1.RawValue{otherName(near, "evil")}, nil, []string{"evil"}},
		{"foreign+receptor", []asn1.RawValue{otherName(upn, "evil"), otherName(utils.OIDReceptorName, "good")}, []string{"good"}, []string{"evil"}},
		{"receptor+foreign", []asn1.RawValue{otherName(utils.OIDReceptorName, "good"), otherName(upn, "evil")}, []string{"good"}, []string{"evil"}},
		{"dns-only", []asn1.RawValue{dns("nodeA")}, nil, []string{"nodeA"}},
		{"dns+receptor", []asn1.RawValue{dns("nodeA"), otherName(utils.OIDReceptorName, "nodeB")}, []string{"nodeB"}, []string{"nodeA"}},
		{"two-receptor", []asn1.RawValue{otherName(utils.OIDReceptorName, "n1"), otherName(utils.OIDReceptorName, "n2")}, []string{"n1", "n2"}, []string{"n1n2", "n"}},
	} {
		cr := cr
		w.Case("crafted "+cr.name, func() CaseOut { return checkCrafted(cr.name, cr.gen, cr.want, cr.reject) })
	}
	// new key path
	for _, l := range [][]string{{"a"}, {"a", "b"}, {strings.Repeat("k", 200)}, nil} {
		c := c20Case{IDs: l, DNS: []string{"x.example"}, NewKey: true}
		w.Case(fmt.Sprintf("newkey ids=%s", shortList(l)), func() CaseOut { return checkC20(c) })
	}
}

func init() {
	register(&PropSpec{
		ID:        "C20",
		Level:     "exploration",
		Technique: "bounded-exhaustive enumeration of name sets through the real CreateCertReq/GetReqNames/SignCertReq/ReceptorNames/ReceptorVerifyFunc chain, compared with the requested names",
		Rule: "single node IDs of every byte length 0..300 plus 1000, 16383/4, 65535/6, 70000 in ASCII, 2-byte and 3-byte UTF-8, invalid UTF-8 and NUL; all lists of <=2 (quick) / <=3 (thorough) IDs from a 5-entry menu (duplicates, case variants, long+short) x 3 DNS sets x 4 IP sets (v4, v6, v4-mapped) x validity windows; new-key path; 8 requests made outside receptor's tooling that ask for more than names (CA flag, certificate-signing key usage, name constraints, a private extension): the issued certificate is an end-entity certificate for the requested names only, and an identity minted with it is refused. " +
			"Non-trivial = at least one name requested. For every issued certificate: names read back, chain to the CA, and ReceptorVerifyFunc accepts each requested ID and rejects prefix/extension/case variants/empty/other (server and client mode).",
		Assumptions: []string{"Go's crypto/x509 parser is the reference for DNS/IP names; RSA 2048 keys only"},
		Run:         runC20,
	})
}
