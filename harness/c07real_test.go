package harness

import (
	"encoding/binary"
	"encoding/json"
	"fmt"
	"io"
	"net"
	"os"
	"strings"
	"sync"
	"time"
)

// C07 (b) — the same message grammar against the REAL daemon over a REAL TCP backend connection: the
// harness is the peer "evil" (framed stream: 2-byte length + message), a second harness connection "g"
// is the well-behaved neighbour. After the input the daemon process must be alive, answer `status` on its
// control socket, still answer g's ping datagram, and accept a fresh backend connection.

type tcpPeer struct {
	c    net.Conn
	mu   sync.Mutex
	msgs [][]byte // messages received from the daemon
	dead bool
}

func dialPeer(port int) (*tcpPeer, error) {
	var c net.Conn
	var err error
	for dl := time.Now().Add(8 * time.Second); ; {
		// (the backend listener opens a little after the control socket)
		c, err = net.DialTimeout("tcp", fmt.Sprintf("127.0.0.1:%d", port), 3*time.Second)
		if err == nil || time.Now().After(dl) {
			break
		}
		time.Sleep(30 * time.Millisecond)
	}
	if err != nil {
		return nil, err
	}
	p := &tcpPeer{c: c}
	go func() {
		hdr := make([]byte, 2)
		for {
			if _, err := io.ReadFull(c, hdr); err != nil {
				p.mu.Lock()
				p.dead = true
				p.mu.Unlock()
				return
			}
			n := int(binary.LittleEndian.Uint16(hdr))
			buf := make([]byte, n)
			if _, err := io.ReadFull(c, buf); err != nil {
				p.mu.Lock()
				p.dead = true
				p.mu.Unlock()
				return
			}
			p.mu.Lock()
			p.msgs = append(p.msgs, buf)
			p.mu.Unlock()
		}
	}()
	return p, nil
}

func (p *tcpPeer) send(msg []byte) error {
	p.c.SetWriteDeadline(time.Now().Add(5 * time.Second))
	_, err := p.c.Write(frameStream([][]byte{msg}))
	return err
}

func (p *tcpPeer) received() [][]byte {
	p.mu.Lock()
	defer p.mu.Unlock()
	return append([][]byte(nil), p.msgs...)
}

// waitFor polls the received messages until pred holds for one of them.
func (p *tcpPeer) waitFor(timeout time.Duration, pred func([]byte) bool) bool {
	dl := time.Now().Add(timeout)
	for time.Now().Before(dl) {
		for _, m := range p.received() {
			if pred(m) {
				return true
			}
		}
		time.Sleep(10 * time.Millisecond)
	}
	return false
}

func helloOf(id string, epoch, seq uint64) []byte {
	return mkRoute(wireRoute{NodeID: id, UpdateID: fmt.Sprintf("%s-%d", id, seq), UpdateEpoch: epoch, UpdateSequence: seq, Connections: map[string]float64{"v": 1}, ForwardingNode: id})
}

type c07RealArgs struct {
	Real  bool
	Name  string
	Class string
	Phase string
	Msgs  [][]byte
}

func execC07Real(a c07RealArgs) CaseOut {
	var out CaseOut
	out.Nontrivial = true
	dir, err := os.MkdirTemp(scratchDir(), "c07r-")
	if err != nil {
		out.violate("harness:c07r-tmp", "%v", err)
		return out
	}
	defer os.RemoveAll(dir)
	d, port, err := startDaemonListening(dir, "v", nil)
	if err != nil {
		out.violate("harness:c07r-daemon", "%v", err)
		return out
	}
	defer d.kill()
	isHelloFromV := func(m []byte) bool {
		if len(m) == 0 || m[0] != 1 {
			return false
		}
		var r wireRoute
		return json.Unmarshal(m[1:], &r) == nil && r.NodeID == "v"
	}
	// the well-behaved neighbour
	g, err := dialPeer(port)
	if err != nil {
		out.violate("harness:c07r-dial", "%v", err)
		return out
	}
	defer g.c.Close()
	g.send(helloOf("g", 500, 1))
	if !g.waitFor(5*time.Second, isHelloFromV) {
		out.violate("harness:c07r-handshake", "the daemon did not greet the well-behaved peer")
		return out
	}
	g.send(helloOf("g", 500, 2))
	var epoch uint64
	for _, m := range g.received() {
		if isHelloFromV(m) {
			var r wireRoute
			json.Unmarshal(m[1:], &r)
			epoch = r.UpdateEpoch
		}
	}
	ev, err := dialPeer(port)
	if err != nil {
		out.violate("harness:c07r-dial", "%v", err)
		return out
	}
	defer ev.c.Close()
	if a.Phase == "post" {
		ev.send(helloOf("evil", 1000, 1))
		if !ev.waitFor(5*time.Second, isHelloFromV) {
			out.violate("harness:c07r-handshake", "the daemon did not greet the scripted peer")
			return out
		}
		ev.send(helloOf("evil", 1000, 2))
		time.Sleep(100 * time.Millisecond)
	}
	for _, raw := range a.Msgs {
		msg := raw
		if strings.Contains(string(msg), "\"@VEPOCH@\"") {
			msg = []byte(strings.ReplaceAll(string(msg), "\"@VEPOCH@\"", fmt.Sprint(epoch)))
		}
		if strings.Contains(string(msg), "\"@VEPOCH+1@\"") {
			msg = []byte(strings.ReplaceAll(string(msg), "\"@VEPOCH+1@\"", fmt.Sprint(epoch+(1<<24))))
		}
		if len(msg) > 65535 {
			continue // does not fit a frame of this backend
		}
		if ev.send(msg) != nil {
			break
		}
		time.Sleep(50 * time.Millisecond)
	}
	time.Sleep(400 * time.Millisecond)
	ctx := fmt.Sprintf("real daemon over TCP, input %s (%s phase)", a.Name, a.Phase)
	if !d.alive() {
		log := d.logTail()
		key := "peer:victim-shut-down:" + a.Class
		if i := strings.Index(log, "panic: "); i >= 0 {
			line := log[i:]
			if j := strings.Index(line, "\n"); j > 0 {
				line = line[:j]
			}
			key = "panic(real daemon): " + line
		} else if i := strings.Index(log, "fatal error: "); i >= 0 {
			line := log[i:]
			if j := strings.Index(line, "\n"); j > 0 {
				line = line[:j]
			}
			key = "fatal(real daemon): " + line
		}
		out.violate(key, "%s: the daemon process is gone; log: %s", ctx, trunc(log, 600))
		out.Outcome = "daemon-dead"
		return out
	}
	if r, err := d.ask("status", 10*time.Second); err != nil || !strings.HasPrefix(r, "{") {
		out.violate("peer:control-socket-silent:"+a.Class, "%s: `status` on the control socket: %q, %v", ctx, trunc(r, 80), err)
	}
	// g pings the victim: data packet g:pg -> v:ping, the reply comes back to g:pg
	nrep := len(g.received())
	gotReply := false
	for try := 0; try < 4 && !gotReply; try++ { // (a datagram may be sent again; the machine may be busy)
		g.send(mkData(10, "g", "v", "pg", "ping", nil))
		gotReply = g.waitFor(4*time.Second, func(m []byte) bool {
			h, ok := parseData(m)
			return ok && h.ToSvc == "pg" && h.FromSvc == "ping"
		})
	}
	_ = nrep
	if !gotReply {
		out.violate("peer:good-peer-cannot-reach-victim:"+a.Class, "%s: the well-behaved peer's ping was not answered", ctx)
	}
	// a fresh backend connection is still greeted
	if f, err := dialPeer(port); err != nil {
		out.violate("peer:listener-dead:"+a.Class, "%s: cannot connect to the backend listener any more: %v", ctx, err)
	} else {
		f.send(helloOf("fresh", 700, 1))
		if !f.waitFor(5*time.Second, isHelloFromV) {
			out.violate("peer:listener-dead:"+a.Class, "%s: a fresh backend connection is not greeted", ctx)
		}
		f.c.Close()
	}
	out.Outcome = fmt.Sprintf("real %s survived", a.Phase)
	return out
}

func execC07(w *W, raw json.RawMessage) CaseOut {
	var a c07RealArgs
	json.Unmarshal(raw, &a)
	return execC07Real(a)
}

func coordC07(c *Coord) {
	c.runShards()
	if c.stopped() {
		return
	}
	p := c.newPool()
	defer p.close()
	ins := c07Grammar(c.Thorough())
	var jobs []c07RealArgs
	seen := map[string]int{}
	for _, in := range ins {
		// quick: two representatives per grammar class; thorough: everything
		seen[in.Class]++
		if !c.Thorough() && seen[in.Class] > 2 {
			continue
		}
		for _, ph := range []string{"post", "pre"} {
			if ph == "pre" && !c.Thorough() && seen[in.Class] > 1 {
				continue
			}
			jobs = append(jobs, c07RealArgs{Real: true, Name: in.Name, Class: in.Class, Phase: ph, Msgs: in.Msgs})
		}
	}
	var wg sync.WaitGroup
	sem := make(chan struct{}, p.size())
	for _, j := range jobs {
		if c.stopped() {
			break
		}
		j := j
		wg.Add(1)
		sem <- struct{}{}
		go func() {
			defer wg.Done()
			defer func() { <-sem }()
			r := p.exec(j)
			raw, _ := json.Marshal(j)
			c.record(fmt.Sprintf("real %s #%s %s", j.Phase, j.Class, j.Name), raw, r.Out)
		}()
	}
	wg.Wait()
}
