package harness

import (
	"encoding/json"
	"fmt"
	"net"
	"os"
	"path/filepath"
	"strings"
	"time"
)

// C04, remote history R1: node n1 (the one that crashes) submits a `cat` unit to node n2 over a TCP backend
// link; both are real daemons.
//
//   - crash points: n1 kills itself at its k-th hook point (every k of a counting run);
//   - cross-process points: n2 is parked at a hook point of its submission handler (gate), n1 is killed
//     from outside meanwhile, n2 is released.
//
// After the restart of n1 on its data directory the unit must be listed as remote work for n2 / cat; a
// remote unit ID that the record (or, at the later gates, the protocol) had bound it to must still be the
// one it names; every query answers and the unit reaches a final state.

type remoteRecord struct {
	State     int
	WorkType  string
	ExtraData struct {
		RemoteNode     string
		RemoteWorkType string
		RemoteUnitID   string
		RemoteStarted  bool
	}
}

func readRemoteRecord(path string) (*remoteRecord, error) {
	b, err := os.ReadFile(path)
	if err != nil {
		return nil, err
	}
	var r remoteRecord
	if err := json.Unmarshal(b, &r); err != nil {
		return nil, err
	}
	return &r, nil
}

func freePort() int {
	l, err := net.Listen("tcp", "127.0.0.1:0")
	if err != nil {
		return 0
	}
	defer l.Close()
	return l.Addr().(*net.TCPAddr).Port
}

func (d *daemon) waitRoute(to string, timeout time.Duration) bool {
	dl := time.Now().Add(timeout)
	for time.Now().Before(dl) && d.alive() {
		l, err := d.ask("status", 3*time.Second)
		if err == nil {
			var st struct{ RoutingTable map[string]string }
			if json.Unmarshal([]byte(l), &st) == nil && st.RoutingTable[to] != "" {
				return true
			}
		}
		time.Sleep(50 * time.Millisecond)
	}
	return false
}

func remoteExtra(st *unitStatus) (node, wt, uid string, started bool) {
	m, _ := st.ExtraData.(map[string]interface{})
	node, _ = m["RemoteNode"].(string)
	wt, _ = m["RemoteWorkType"].(string)
	uid, _ = m["RemoteUnitID"].(string)
	started, _ = m["RemoteStarted"].(bool)
	return
}

func execC04Remote(a c04Args) CaseOut {
	var out CaseOut
	out.Nontrivial = a.K > 0 || a.Gate != ""
	dir, err := os.MkdirTemp(scratchDir(), "c04r-")
	if err != nil {
		out.violate("harness:c04-tmp", "%v", err)
		return out
	}
	defer os.RemoveAll(dir)
	dir1, dir2 := filepath.Join(dir, "n1"), filepath.Join(dir, "n2")
	os.MkdirAll(dir1, 0o700)
	os.MkdirAll(dir2, 0o700)
	defer killStrayRunners(dir)
	gates := filepath.Join(dir, "gates")
	os.MkdirAll(gates, 0o700)
	env2 := []string{}
	if a.Gate != "" {
		env2 = append(env2, "VERIF_GATE_DIR="+gates)
		os.WriteFile(filepath.Join(gates, "daemon."+a.Gate+".wait"), nil, 0o600)
	}
	d2, port, err := startDaemonListening(dir2, "n2", env2)
	if err != nil {
		out.violate("harness:c04-daemon", "n2: %v", err)
		return out
	}
	defer d2.kill()
	plog := filepath.Join(dir, "points.log")
	env1 := []string{"VERIF_POINT_LOG=" + plog}
	if a.K > 0 {
		env1 = append(env1, fmt.Sprintf("VERIF_CRASH=daemon:%d", a.K))
	}
	peer := []string{"--tcp-peer", fmt.Sprintf("address=127.0.0.1:%d", port), "redial=true"}
	d1, err := startDaemon(dir1, "n1", env1, peer...)
	if err != nil {
		out.violate("harness:c04-daemon", "n1: %v", err)
		if d1 != nil {
			d1.kill()
		}
		return out
	}
	if !d1.waitRoute("n2", 15*time.Second) {
		d1.kill()
		out.violate("harness:c04-route", "n1 never learned a route to n2")
		return out
	}
	input := "remote input\n"
	// ---- the history: submit, follow to completion, fetch the results
	sub := d1.submit("n2", "cat", []byte(input), 15*time.Second)
	id := sub.ID
	var finalSeen *unitStatus
	killedAtGate := false
	if a.Gate != "" && id != "" {
		if waitFile(filepath.Join(gates, "daemon."+a.Gate+".arrived"), 15*time.Second) {
			killedAtGate = true
		} else {
			out.count("gate_not_reached", 1)
		}
	} else if id != "" {
		dl := time.Now().Add(15 * time.Second)
		for time.Now().Before(dl) && d1.alive() {
			st, _, err := d1.status(id, 3*time.Second)
			if err == nil && st != nil && (st.State == 2 || st.State == 3) {
				finalSeen = st
				break
			}
			time.Sleep(60 * time.Millisecond)
		}
		if finalSeen != nil && d1.alive() {
			d1.results(id, 0, 5*time.Second)
		}
	}
	if a.K == 0 && a.Gate == "" {
		d1.kill()
		res := map[string]any{"daemon": pointsOf(plog, "daemon"), "runner": []string{}}
		out.Extra, _ = json.Marshal(res)
		out.Outcome = "count"
		return out
	}
	at := crashPointOf(plog)
	if a.Gate != "" {
		at = "n2@" + a.Gate
	}
	if at == "" {
		at = "daemon.none"
	}
	d1.kill()
	if a.Gate != "" {
		os.WriteFile(filepath.Join(gates, "daemon."+a.Gate+".go"), nil, 0o600)
	}
	time.Sleep(200 * time.Millisecond)
	ctx := fmt.Sprintf("history R1 (remote cat on n2) crash of n1 at %s (k=%d)", at, a.K)
	if id == "" {
		out.Outcome = "R1 not-acknowledged"
		out.count("submission_not_acknowledged", 1)
		return out
	}
	recPath := filepath.Join(dir1, "data", "n1", id, "status")
	pre, preErr := readRemoteRecord(recPath)
	// n2's view before n1 comes back (give it a moment to finish what it had accepted)
	time.Sleep(600 * time.Millisecond)
	list2, _, _ := d2.list(10 * time.Second)
	// ---- restart n1
	d1b, err := startDaemon(dir1, "n1", nil, peer...)
	if err != nil {
		out.violate("crash:daemon-does-not-restart:at="+at, "%s: %v", ctx, err)
		if d1b != nil {
			d1b.kill()
		}
		return out
	}
	defer d1b.kill()
	d1b.waitRoute("n2", 15*time.Second)
	time.Sleep(1300 * time.Millisecond)
	list, rawList, lerr := d1b.list(30 * time.Second)
	if lerr != nil {
		out.violate("crash:no-answer:list:at="+at, "%s: work list does not answer: %v", ctx, lerr)
		return out
	}
	st, ok := list[id]
	if !ok {
		out.violate("crash:acknowledged-unit-missing:at="+at, "%s: unit %s was acknowledged but is not listed after the restart: %s", ctx, id, trunc(rawList, 200))
		return out
	}
	s1, raw1, e1 := d1b.status(id, 30*time.Second)
	if e1 != nil || s1 == nil {
		out.violate("crash:no-answer:status:at="+at, "%s: work status %s: %q %v", ctx, id, trunc(raw1, 100), e1)
		return out
	}
	node, wt, uid, _ := remoteExtra(s1)
	emptyRecord := strings.Contains(at, ".truncated")
	if st.WorkType != "remote" {
		out.violate("crash:work-type-lost:at="+at, "%s: unit %s was submitted as remote work, after the restart it is listed with work type %q (state %d, %q)", ctx, id, st.WorkType, st.State, st.Detail)
	} else {
		if node != "n2" || wt != "cat" {
			out.violate("crash:remote-binding-lost:node-or-type:at="+at, "%s: unit %s was submitted for n2/cat, after the restart it names node %q type %q", ctx, id, node, wt)
		}
		if preErr == nil && pre.ExtraData.RemoteUnitID != "" && uid != pre.ExtraData.RemoteUnitID {
			out.violate("crash:remote-binding-lost:unit-changed:at="+at, "%s: the record named remote unit %q at the crash, after the restart %q", ctx, pre.ExtraData.RemoteUnitID, uid)
		}
		if killedAtGate && (a.Gate == "submit.stdin_closed" || a.Gate == "submit.before_start") {
			// n2 has taken the whole input: n1 had read n2's answer naming the unit long before
			var ids2 []string
			for k := range list2 {
				ids2 = append(ids2, k)
			}
			if len(ids2) == 1 && uid != ids2[0] {
				out.violate("crash:remote-binding-lost:unit-not-recorded:at="+at, "%s: n2 created unit %s for this submission and had received its input, but after the restart n1's record names remote unit %q (record at the crash: %+v)", ctx, ids2[0], uid, pre)
			}
			if len(ids2) != 1 {
				out.violate("harness:c04-remote-units", "%s: n2 lists %d units", ctx, len(ids2))
			}
		}
	}
	if finalSeen != nil {
		if s1.State != finalSeen.State || s1.StdoutSize != finalSeen.StdoutSize {
			out.violate("crash:final-state-changed:at="+at, "%s: unit %s had been reported %s with %d bytes; after the restart it is state %d (%s) with %d bytes", ctx, id, finalSeen.StateName, finalSeen.StdoutSize, s1.State, s1.Detail, s1.StdoutSize)
		} else if finalSeen.State == 2 {
			// the local copy of the output may still have been behind the record at the crash: the mirror has to connect
			// to n2 again first (route, retry delays), which takes a while on a busy machine
			hdr, data, rerr := d1b.results(id, 0, 120*time.Second)
			if !strings.HasPrefix(hdr, "Streaming") || string(data) != input {
				out.violate("crash:output-lost:at="+at, "%s: unit %s finished with output %q; after the restart results give %q / %q (%v)", ctx, id, input, hdr, trunc(string(data), 60), rerr)
			}
		}
	} else {
		fin, werr := d1b.waitState(id, 30*time.Second, 2, 3, 4)
		if werr != nil {
			stt, det := -1, ""
			if fin != nil {
				stt, det = fin.State, fin.Detail
			}
			kind := "stuck-running"
			if stt == 0 {
				kind = "stuck-pending"
			}
			out.violate("crash:"+kind+":at="+at, "%s: unit %s never reaches a final state after the restart (state %d, %q)", ctx, id, stt, det)
		}
	}
	if emptyRecord {
		for i := range out.Viol {
			if strings.HasPrefix(out.Viol[i].Key, "crash:") {
				out.Viol[i].Msg = "[" + out.Viol[i].Key + "] " + out.Viol[i].Msg
				out.Viol[i].Key = "crash:record-empty-after-kill-between-truncate-and-write:at=" + at
			}
		}
	}
	out.count("acknowledged_units_checked", 1)
	out.Outcome = fmt.Sprintf("R1 gate=%v pre-bound=%v", a.Gate != "", preErr == nil && pre.ExtraData.RemoteUnitID != "")
	out.Sample = map[string]any{"history": "R1", "crash": at, "record_at_crash": pre, "after_restart": map[string]any{"state": s1.State, "node": node, "type": wt, "remote_unit": uid}}
	return out
}
