package harness

import (
	"context"
	"crypto/tls"
	"encoding/json"
	"fmt"
	"io"
	"io/fs"
	"net"
	"os"
	"sort"
	"strings"
	"sync"
	"time"

	"github.com/ansible/receptor/pkg/controlsvc"
	"github.com/ansible/receptor/pkg/logger"
	"github.com/ansible/receptor/pkg/netceptor"
	"github.com/ansible/receptor/pkg/workceptor"
)

// C08 (d) — concurrent sessions issuing well-formed work commands: every one of them gets an answer.
//
// The `work` command handler is the real one (obtained through RegisterWithControlService); each session
// is a thread of the cooperative scheduler, so the interleaving of the commands at the hook points inside
// AllocateUnit / Status / UpdateFullStatus / Release is explored exhaustively up to the preemption bound.
// A thread that blocks on a lock without hook points (activeUnitsLock) is recognised by a quiet period;
// "nobody can move" is the dead-lock the statement excludes.

type captureServer struct{ t controlsvc.ControlCommandType }

func (c *captureServer) AddControlFunc(name string, cType controlsvc.ControlCommandType) error {
	c.t = cType
	return nil
}
func (c *captureServer) ConnectionListener(context.Context, net.Listener) {}
func (c *captureServer) RunControlSession(net.Conn)                       {}
func (c *captureServer) RunControlSvc(context.Context, string, *tls.Config, string, fs.FileMode, string, *tls.Config) error {
	return nil
}
func (c *captureServer) SetServerNet(controlsvc.Neter)    {}
func (c *captureServer) SetServerTLS(controlsvc.Tlser)    {}
func (c *captureServer) SetServerUtils(controlsvc.Utiler) {}
func (c *captureServer) SetupConnection(net.Conn)         {}

// stubCfo stands for the session: stdin of a submission is empty, the peer is a Unix socket client.
type stubCfo struct{}

func (stubCfo) BridgeConn(string, io.ReadWriteCloser, string, *logger.ReceptorLogger, controlsvc.Utiler) error {
	return nil
}
func (stubCfo) ReadFromConn(string, io.Writer, controlsvc.Copier) error { return nil }
func (stubCfo) WriteToConn(string, chan []byte) error {
	return nil
}
func (stubCfo) Close() error { return nil }
func (stubCfo) RemoteAddr() net.Addr {
	return &net.UnixAddr{Name: "ctl", Net: "unix"}
}

var (
	c08cOnce sync.Once
	c08cW    *workceptor.Workceptor
	c08cN    *netceptor.Netceptor
	c08cType controlsvc.ControlCommandType
)

func c08cEnv() {
	c08cOnce.Do(func() {
		n := netceptor.New(context.Background(), "n1")
		n.Logger.SetOutput(io.Discard)
		netceptor.MainInstance = n
		dir, _ := os.MkdirTemp(scratchDir(), "c08conc-")
		w, err := workceptor.New(context.Background(), n, dir)
		if err != nil {
			panic(err)
		}
		workceptor.MainInstance = w
		w.RegisterWorker("stub", func(_ workceptor.BaseWorkUnitForWorkUnit, w *workceptor.Workceptor, id, wt string) workceptor.WorkUnit {
			u := &scriptedUnit{kind: "hold", env: &ctlEnv{}}
			u.BaseWorkUnit.Init(w, id, wt, workceptor.FileSystem{}, stubWatcher{})
			return u
		}, false)
		cs := &captureServer{}
		if err := w.RegisterWithControlService(cs); err != nil || cs.t == nil {
			panic(fmt.Sprint("no work command type: ", err))
		}
		n.SetClientTLSConfig("tlsc", &tls.Config{MinVersion: tls.VersionTLS12}, nil)
		c08cW, c08cN, c08cType = w, n, cs.t
	})
}

// one execution: two units exist; the sessions run their commands concurrently
func runC08Conc(cmds []string, r *xrun) []Violation {
	c08cEnv()
	var out CaseOut
	w := c08cW
	// fresh units u0, u1
	var units []string
	for i := 0; i < 2; i++ {
		u, err := w.AllocateUnit("stub", nil)
		if err != nil {
			out.violate("harness:c08c-alloc", "%v", err)
			return out.Viol
		}
		units = append(units, u.ID())
	}
	sort.Strings(units) // `work list` walks the units in the order of ListKnownUnitIDs (a map): any of them may come first
	s := newScheduler()
	s.extQuiet = 60 * time.Millisecond
	type res struct {
		reply map[string]interface{}
		err   error
		done  bool
	}
	results := make([]res, len(cmds))
	for i, c := range cmds {
		i := i
		line := strings.NewReplacer("U0", units[0], "U1", units[1]).Replace(c)
		s.add(fmt.Sprintf("s%d:%s", i, strings.Fields(c)[0]), func() {
			var cc controlsvc.ControlCommand
			var err error
			if strings.HasPrefix(line, "submit") {
				cc, err = c08cType.InitFromJSON(map[string]interface{}{"subcommand": "submit", "node": "n1", "worktype": "stub"})
			} else {
				cc, err = c08cType.InitFromString(line)
			}
			if err != nil {
				results[i] = res{nil, err, true}
				return
			}
			rep, err := cc.ControlFunc(context.Background(), c08cN, stubCfo{})
			results[i] = res{rep, err, true}
		})
	}
	sr := s.run(r)
	if sr.deadlock {
		out.violate("ctl:concurrent-commands-deadlock", "sessions %v: nobody can move: %s; schedule %v", cmds, sr.stuck, sr.trace)
		s.abandon()
		// the Workceptor is wedged for good: later executions need a fresh one
		c08cOnce = sync.Once{}
		return out.Viol
	}
	for i, c := range cmds {
		rs := results[i]
		if !rs.done {
			out.violate("ctl:concurrent-command-no-answer", "sessions %v: %q got no answer", cmds, c)
			continue
		}
		if rs.err != nil {
			// commands on a unit that another session releases at the same time may fail with "unknown work unit"
			msg := rs.err.Error()
			releasing := false
			for j, o := range cmds {
				if j != i && strings.Contains(o, "release") {
					releasing = true
				}
			}
			if !(releasing && (strings.Contains(msg, "unknown work unit") || strings.Contains(msg, "no such file") || strings.Contains(msg, "not found"))) {
				out.violate("ctl:concurrent-command-error:"+strings.Fields(c)[0], "sessions %v: %q failed: %v; schedule %v", cmds, c, rs.err, sr.trace)
			}
		}
	}
	// clean up
	for _, id := range w.ListKnownUnitIDs() {
		w.ReleaseUnit(id, true)
	}
	return out.Viol
}

// C19: a `work list` (and a second one) interleaved with a remote submission that carries secret parameters,
// at every hook point of the submission: no reply ever shows a marker value.
func runC19Conc(lists int, r *xrun) []Violation {
	c08cEnv()
	var out CaseOut
	w := c08cW
	s := newScheduler()
	s.extQuiet = 60 * time.Millisecond
	const marker = "SECRETMARK777X"
	replies := make([]string, lists)
	var subErr error
	s.add("submit", func() {
		cc, err := c08cType.InitFromJSON(map[string]interface{}{"subcommand": "submit", "node": "othernode", "worktype": "plain", "tlsclient": "tlsc", "secret_k": marker, "plain": "v"})
		if err != nil {
			subErr = err
			return
		}
		_, subErr = cc.ControlFunc(context.Background(), c08cN, stubCfo{})
	})
	for i := 0; i < lists; i++ {
		i := i
		s.add(fmt.Sprintf("list%d", i), func() {
			cc, err := c08cType.InitFromString("list")
			if err != nil {
				return
			}
			rep, err := cc.ControlFunc(context.Background(), c08cN, stubCfo{})
			b, _ := json.Marshal(rep)
			replies[i] = fmt.Sprintf("%s %v", b, err)
		})
	}
	sr := s.run(r)
	if sr.deadlock {
		out.violate("secret:concurrent-deadlock", "submit || list: nobody can move: %s; schedule %v", sr.stuck, sr.trace)
		s.abandon()
		c08cOnce = sync.Once{}
		return out.Viol
	}
	if subErr != nil {
		out.violate("harness:c19-conc-submit", "submission failed: %v", subErr)
	}
	for i, rep := range replies {
		if strings.Contains(rep, marker) {
			out.violate("secret:disclosed:during-submission", "`work list` #%d answered during the submission shows the secret value: %s; schedule %v", i, trunc(rep, 300), sr.trace)
		}
	}
	for _, id := range w.ListKnownUnitIDs() {
		w.ReleaseUnit(id, true)
	}
	return out.Viol
}

// C13: a release racing with look-ups of the same unit (status, list): once the release has answered
// "released", the unit is unknown, not listed, and its directory is gone — whatever ran in between.
func runC13ReleaseConc(cmds []string, r *xrun) []Violation {
	c08cEnv()
	var out CaseOut
	w := c08cW
	var units []string
	var dirs []string
	for i := 0; i < 2; i++ {
		u, err := w.AllocateUnit("stub", nil)
		if err != nil {
			out.violate("harness:c13c-alloc", "%v", err)
			return out.Viol
		}
		units = append(units, u.ID())
		dirs = append(dirs, u.UnitDir())
	}
	s := newScheduler()
	s.extQuiet = 60 * time.Millisecond
	errs := make([]error, len(cmds))
	done := make([]bool, len(cmds))
	for i, c := range cmds {
		i := i
		line := strings.NewReplacer("U0", units[0], "U1", units[1]).Replace(c)
		s.add(fmt.Sprintf("s%d:%s", i, strings.Fields(c)[0]), func() {
			cc, err := c08cType.InitFromString(line)
			if err == nil {
				_, err = cc.ControlFunc(context.Background(), c08cN, stubCfo{})
			}
			errs[i], done[i] = err, true
		})
	}
	sr := s.run(r)
	if sr.deadlock {
		out.violate("unit:release-race-deadlock", "sessions %v: nobody can move: %s; schedule %v", cmds, sr.stuck, sr.trace)
		s.abandon()
		c08cOnce = sync.Once{}
		return out.Viol
	}
	for i, c := range cmds {
		if !strings.Contains(c, "release") || !done[i] || errs[i] != nil {
			continue
		}
		// this release succeeded
		which := 1
		if strings.Contains(c, "U0") {
			which = 0
		}
		id := units[which]
		ctx := fmt.Sprintf("sessions %v, after %q answered: ", cmds, c)
		if cc, err := c08cType.InitFromString("status " + id); err == nil {
			if rep, err := cc.ControlFunc(context.Background(), c08cN, stubCfo{}); err == nil {
				b, _ := json.Marshal(rep)
				out.violate("unit:known-after-release:raced-with-lookup", "%sthe unit is still known: status answers %s; schedule %v", ctx, trunc(string(b), 160), sr.trace)
			}
		}
		for _, k := range w.ListKnownUnitIDs() {
			if k == id {
				out.violate("unit:listed-after-release:raced-with-lookup", "%sthe unit is still listed; schedule %v", ctx, sr.trace)
			}
		}
		if _, err := os.Stat(dirs[which]); err == nil {
			out.violate("unit:files-left-after-release:raced-with-lookup", "%sits directory still exists; schedule %v", ctx, sr.trace)
		}
	}
	for _, id := range w.ListKnownUnitIDs() {
		w.ReleaseUnit(id, true)
	}
	return out.Viol
}
