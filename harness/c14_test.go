package harness

import (
	"context"
	"fmt"
	"io"
	"os"
	"path/filepath"
	"strings"
	"sync"
	"time"

	"github.com/ansible/receptor/pkg/netceptor"
	"github.com/ansible/receptor/pkg/workceptor"
)

// C14 — status records are updated atomically w.r.t. every other reader and writer.
//
// Threads stand for goroutines of the daemon (they share one BaseWorkUnit and its in-memory lock) and
// for other processes (each has its own StatusFileData / STDoutWriter and meets the others only through
// the lock file and the status file). Every writer owns one field and increments it.

var (
	c14Once sync.Once
	c14W    *workceptor.Workceptor
	c14Dir  string
)

func c14Env() {
	c14Once.Do(func() {
		n := netceptor.New(context.Background(), "n1")
		n.Logger.SetOutput(io.Discard)
		netceptor.MainInstance = n
		dir, err := os.MkdirTemp(scratchDir(), "c14-")
		if err != nil {
			panic(err)
		}
		c14Dir = dir
		w, err := workceptor.New(context.Background(), n, dir)
		if err != nil {
			panic(err)
		}
		workceptor.MainInstance = w
		w.RegisterWorker("wt", func(_ workceptor.BaseWorkUnitForWorkUnit, w *workceptor.Workceptor, id, wt string) workceptor.WorkUnit {
			u := &scriptedUnit{kind: "hold", env: &ctlEnv{}}
			u.BaseWorkUnit.Init(w, id, wt, workceptor.FileSystem{}, stubWatcher{})
			return u
		}, false)
		c14W = w
	})
}

type c14Abs struct {
	State      int
	WorkType   string
	Detail     string
	StdoutSize int64
}

func absOf(s *workceptor.StatusFileData) c14Abs {
	return c14Abs{s.State, s.WorkType, s.Detail, s.StdoutSize}
}

type c14Scenario struct {
	Name    string
	Threads []string // thread kinds, e.g. "D1", "D2x2", "R1", "R2", "L1", "L2"
	Bound   int
	Try     bool // also try to run threads that the hook-derived model of the in-memory lock says are blocked (the real lock decides)
}

var c14Seq int

func runC14Once(sc c14Scenario, r *xrun) []Violation {
	c14Env()
	var out CaseOut
	c14Seq++
	id := fmt.Sprintf("u%08d", c14Seq)
	bwu := &workceptor.BaseWorkUnit{}
	bwu.Init(c14W, id, "wt", workceptor.FileSystem{}, stubWatcher{})
	dir := bwu.UnitDir()
	os.MkdirAll(dir, 0o700)
	defer os.RemoveAll(dir)
	if err := bwu.Save(); err != nil {
		return []Violation{{Key: "harness:c14-save", Msg: err.Error()}}
	}
	file := bwu.StatusFileName()
	initRec := &workceptor.StatusFileData{}
	if err := initRec.Load(file); err != nil {
		return []Violation{{Key: "harness:c14-load", Msg: err.Error()}}
	}
	s := newScheduler()
	if sc.Try {
		s.tryBlocked = true
		s.extQuiet = 40 * time.Millisecond
	}
	var mu sync.Mutex
	abs := c14Abs{State: 0, WorkType: "wt", Detail: "Unit Created", StdoutSize: 0}
	history := []c14Abs{abs}
	pending := map[int]func(a *c14Abs){} // thread -> effect of the update it is performing
	type loadObs struct {
		thread   string
		from, to int
		got      c14Abs
		err      error
	}
	var loads []loadObs
	want := abs
	for ti, spec := range sc.Threads {
		kind, reps := spec, 1
		if i := strings.Index(spec, "x"); i > 0 {
			kind = spec[:i]
			fmt.Sscan(spec[i+1:], &reps)
		}
		tid := ti
		name := fmt.Sprintf("%s#%d", kind, ti)
		var sw *workceptor.STDoutWriter
		if kind == "R2" {
			var err error
			sw, err = workceptor.NewStdoutWriter(workceptor.FileSystem{}, dir)
			if err != nil {
				return []Violation{{Key: "harness:c14-stdout", Msg: err.Error()}}
			}
		}
		for i := 0; i < reps; i++ {
			switch kind {
			case "D1":
				want.State++
			case "D2":
				want.WorkType += "w"
			case "R1":
				want.Detail += "r"
			case "R2":
				want.StdoutSize += 3
			case "D3":
				want.State, want.Detail = 4, "Canceled"
			}
		}
		body := func() {
			for i := 0; i < reps; i++ {
				switch kind {
				case "D1":
					mu.Lock()
					pending[tid] = func(a *c14Abs) { a.State++ }
					mu.Unlock()
					bwu.UpdateFullStatus(func(st *workceptor.StatusFileData) { st.State++ })
					if err := bwu.LastUpdateError(); err != nil {
						out.violate("status:update-failed", "%s: %v", name, err)
					}
				case "D2":
					mu.Lock()
					pending[tid] = func(a *c14Abs) { a.WorkType += "w" }
					mu.Unlock()
					bwu.UpdateFullStatus(func(st *workceptor.StatusFileData) { st.WorkType += "w" })
					if err := bwu.LastUpdateError(); err != nil {
						out.violate("status:update-failed", "%s: %v", name, err)
					}
				case "D3":
					// the way a unit is cancelled: state and detail are set, the recorded output size is to stay (-1)
					mu.Lock()
					pending[tid] = func(a *c14Abs) { a.State, a.Detail = 4, "Canceled" }
					mu.Unlock()
					bwu.UpdateBasicStatus(4, "Canceled", -1)
					if err := bwu.LastUpdateError(); err != nil {
						out.violate("status:update-failed", "%s: %v", name, err)
					}
				case "R1":
					mu.Lock()
					pending[tid] = func(a *c14Abs) { a.Detail += "r" }
					mu.Unlock()
					sfd := &workceptor.StatusFileData{}
					if err := sfd.UpdateFullStatus(file, func(st *workceptor.StatusFileData) { st.Detail += "r" }); err != nil {
						out.violate("status:update-failed", "%s: %v", name, err)
					}
				case "R2":
					mu.Lock()
					pending[tid] = func(a *c14Abs) { a.StdoutSize += 3 }
					mu.Unlock()
					if _, err := sw.Write([]byte("xyz")); err != nil {
						out.violate("status:update-failed", "%s: %v", name, err)
					}
				case "S":
					// another part of the daemon looks the unit up by ID and finds it only on disk (the scan that
					// registers units found in the data directory): it loads the record like any other reader
					mu.Lock()
					from := len(history) - 1
					mu.Unlock()
					st, err := c14W.UnitStatus(id)
					mu.Lock()
					if err == nil {
						loads = append(loads, loadObs{name, from, len(history) - 1, absOf(st), nil})
					} else {
						loads = append(loads, loadObs{name, from, len(history) - 1, c14Abs{}, err})
					}
					mu.Unlock()
				case "W":
					// another process stores, in full, the record it holds (the way a unit is first written and the way
					// a remote unit's record is re-saved); here it holds the initial record, so no field changes and
					// every reader must still see that complete record
					if err := initRec.Save(file); err != nil {
						out.violate("status:update-failed", "%s: %v", name, err)
					}
				case "L1":
					mu.Lock()
					from := len(history) - 1
					mu.Unlock()
					sfd := &workceptor.StatusFileData{}
					err := sfd.Load(file)
					mu.Lock()
					loads = append(loads, loadObs{name, from, len(history) - 1, absOf(sfd), err})
					mu.Unlock()
				case "L2":
					mu.Lock()
					from := len(history) - 1
					mu.Unlock()
					err := bwu.Load()
					st := bwu.Status()
					mu.Lock()
					loads = append(loads, loadObs{name, from, len(history) - 1, absOf(st), err})
					mu.Unlock()
				}
			}
		}
		s.add(name, body)
	}
	s.onPoint = func(t *schedThread, point string, args []string) {
		if point == "update.written" {
			mu.Lock()
			if f := pending[t.id]; f != nil {
				f(&abs)
				history = append(history, abs)
			}
			mu.Unlock()
		}
	}
	res := s.run(r)
	defer func() {
		for _, spec := range sc.Threads {
			if strings.HasPrefix(spec, "S") {
				c14W.ReleaseUnit(id, true)
				break
			}
		}
	}()
	if res.deadlock {
		out.violate("status:deadlock", "no thread can run: %s", res.stuck)
		s.abandon()
		time.Sleep(20 * time.Millisecond)
		return dedupViol(out.Viol)
	}
	// final record: the fold of all updates
	fin := &workceptor.StatusFileData{}
	if err := fin.Load(file); err != nil {
		out.violate("status:final-record-unreadable", "final record does not parse: %v", err)
	} else if got := absOf(fin); got != want {
		kind := "lost-update"
		out.violate("status:"+kind, "final record %+v, fold of all updates %+v (trace %v)", got, want, res.trace)
	}
	// what the daemon's goroutines wrote went through the unit's in-memory record: at rest it holds every one of
	// their updates (fields owned by other processes may lag until the next Load)
	mem := absOf(bwu.Status())
	for _, spec := range sc.Threads {
		switch {
		case strings.HasPrefix(spec, "D1"), strings.HasPrefix(spec, "D3"):
			if mem.State != want.State {
				out.violate("status:memory-lost-daemon-update", "at rest the unit's in-memory record has State %d, the daemon's own updates add up to %d (file: %+v; trace %v)", mem.State, want.State, absOf(fin), res.trace)
			}
		case strings.HasPrefix(spec, "D2"):
			if mem.WorkType != want.WorkType {
				out.violate("status:memory-lost-daemon-update", "at rest the unit's in-memory record has WorkType %q, the daemon's own updates add up to %q (file: %+v; trace %v)", mem.WorkType, want.WorkType, absOf(fin), res.trace)
			}
		}
	}
	for _, l := range loads {
		if l.err != nil {
			out.violate("status:reader-saw-partial-record", "%s: load failed: %v", l.thread, l.err)
			continue
		}
		ok := false
		for i := l.from; i <= l.to && i < len(history); i++ {
			if history[i] == l.got {
				ok = true
			}
		}
		if !ok {
			out.violate("status:reader-saw-inconsistent-record", "%s read %+v, which is none of the records committed while it ran (%v)", l.thread, l.got, history[l.from:l.to+1])
		}
	}
	return dedupViol(out.Viol)
}

func runC14(w *W) {
	b := 2
	scs := []c14Scenario{
		{"two processes append, one loads", []string{"R1", "R2", "L1"}, b, false},
		{"daemon goroutine + runner + stdout writer", []string{"D2", "R1", "R2"}, b, false},
		{"two daemon goroutines + runner", []string{"D1", "D2", "R1"}, b, false},
		{"daemon writer, daemon reader, runner", []string{"D2", "L2", "R1"}, b, false},
		{"two updates each", []string{"D2x2", "R1x2", "L1"}, b, false},
		{"runner twice, stdout twice", []string{"R1x2", "R2x2"}, b, false},
		{"daemon writer twice, daemon reader twice", []string{"D2x2", "L2x2"}, b, false},
		{"daemon writer, daemon reader; the real in-memory lock decides", []string{"D2", "L2"}, b, true},
		{"cancel-style update, daemon reader; the real in-memory lock decides", []string{"D3", "L2"}, b, true},
		{"two daemon writers; the real in-memory lock decides", []string{"D1", "D2"}, b, true},
		{"runner rewrites while the daemon discovers the unit on disk; the real file lock decides", []string{"R1", "S"}, b, true},
		{"runner rewrites twice, stdout writer, discovery on disk; the real file lock decides", []string{"R1x2", "R2", "S"}, 1, true},
		{"daemon writers, daemon reader", []string{"D1", "D2", "L2"}, b, false},
		{"whole-record save by another process, two readers", []string{"W", "L1", "L2"}, b, false},
		{"whole-record save twice, reader twice", []string{"Wx2", "L1x2"}, b, false},
		{"whole-record save, reader; the real file lock decides", []string{"W", "L1"}, b, true},
		{"cancel-style update (size unchanged) + stdout writer twice", []string{"D3", "R2x2"}, b, false},
		{"cancel-style update + stdout writer + daemon reader", []string{"D3", "R2", "L2"}, b, false},
		{"cancel-style update + daemon writer + stdout writer", []string{"D3", "D2", "R2"}, b, false},
	}
	if w.Thorough() {
		scs = append(scs,
			c14Scenario{"four threads", []string{"D1", "D2", "R1", "R2"}, 3, false},
			c14Scenario{"four threads with readers", []string{"D2", "R1", "L1", "L2"}, 3, false},
			c14Scenario{"three writers twice", []string{"D2x2", "R1x2", "R2x2"}, 3, false},
			c14Scenario{"five threads", []string{"D1", "D2", "R1", "R2", "L1"}, 2, false},
		)
	}
	for _, sc := range scs {
		sc := sc
		id := fmt.Sprintf("%s threads=%v p=%d", sc.Name, sc.Threads, sc.Bound)
		w.explorerCaseParts(id, sc.Bound, 2, func(r *xrun) []Violation { return runC14Once(sc, r) })
	}
}

var _ = filepath.Join

func init() {
	register(&PropSpec{
		ID:        "C14",
		Level:     "model_checking",
		Technique: "iterative context-bounding DFS of a cooperative scheduler over hook points in the real Save/Load/UpdateFullStatus/STDoutWriter code (lock file and in-memory lock modelled from the points; real files in tmpfs); final record and every load compared with the fold of the committed updates",
		Rule: "threads: daemon goroutines sharing one BaseWorkUnit (D1 increments State, D2 appends to WorkType, D3 = UpdateBasicStatus(Canceled, size unchanged), L2 = Load+Status, S = a look-up by ID that discovers the unit on disk) and other processes with their own StatusFileData (R1 appends to Detail, R2 = STDoutWriter.Write, L1 = Load); 3 threads with 1-2 operations each, every schedule with <=2 preemptions (thorough: 4-5 threads, <=3); switches at blocked/finished threads are free; in three two-thread scenarios a thread that the hook-derived model of the in-memory lock says is blocked may be resumed anyway (one deviation) so that the real lock (in memory or the lock file), not the position of the hook points, decides who waits. " +
			"A case is one scenario part; non-trivial = more than one schedule. Oracle: no dead-lock, no failed update, final record = fold of all updates (each writer owns a field), every load parses and equals a record committed while it ran, at rest the unit's in-memory record holds every update made by the daemon's own goroutines.",
		Assumptions: []string{"other processes are represented by goroutines with their own StatusFileData: the advisory lock (flock on a fresh descriptor of <file>.lock) excludes them exactly like separate processes", "scheduling points are the hook points; code between two points runs atomically"},
		Run:         runC14,
		CaseTimeout: 60 * time.Second,
	})
}
