package harness

import (
	"io"
	"net"
	"os"
	"sync"
	"time"
)

// bufPipe is an in-memory, buffered, full-duplex connection pair (net.Pipe is synchronous and
// dead-locks when both TLS 1.3 ends write at the same time).

type halfPipe struct {
	mu     sync.Mutex
	cond   *sync.Cond
	buf    []byte
	closed bool
}

func newHalf() *halfPipe { h := &halfPipe{}; h.cond = sync.NewCond(&h.mu); return h }

type bufConn struct {
	r, w     *halfPipe
	mu       sync.Mutex
	deadline time.Time
	name     string
}

func bufPipe() (net.Conn, net.Conn) {
	a, b := newHalf(), newHalf()
	return &bufConn{r: a, w: b, name: "a"}, &bufConn{r: b, w: a, name: "b"}
}

func (c *bufConn) Read(p []byte) (int, error) {
	h := c.r
	h.mu.Lock()
	defer h.mu.Unlock()
	for len(h.buf) == 0 {
		if h.closed {
			return 0, io.EOF
		}
		c.mu.Lock()
		dl := c.deadline
		c.mu.Unlock()
		if !dl.IsZero() {
			if time.Now().After(dl) {
				return 0, os.ErrDeadlineExceeded
			}
			t := time.AfterFunc(time.Until(dl)+time.Millisecond, func() { h.mu.Lock(); h.cond.Broadcast(); h.mu.Unlock() })
			h.cond.Wait()
			t.Stop()
		} else {
			h.cond.Wait()
		}
	}
	n := copy(p, h.buf)
	h.buf = h.buf[n:]
	return n, nil
}

func (c *bufConn) Write(p []byte) (int, error) {
	h := c.w
	h.mu.Lock()
	defer h.mu.Unlock()
	if h.closed {
		return 0, io.ErrClosedPipe
	}
	h.buf = append(h.buf, p...)
	h.cond.Broadcast()
	return len(p), nil
}

func (c *bufConn) Close() error {
	for _, h := range []*halfPipe{c.r, c.w} {
		h.mu.Lock()
		h.closed = true
		h.cond.Broadcast()
		h.mu.Unlock()
	}
	return nil
}

type pipeAddr string

func (a pipeAddr) Network() string { return "pipe" }
func (a pipeAddr) String() string  { return string(a) }

func (c *bufConn) LocalAddr() net.Addr  { return pipeAddr(c.name) }
func (c *bufConn) RemoteAddr() net.Addr { return pipeAddr(c.name + "-peer") }
func (c *bufConn) SetDeadline(t time.Time) error {
	c.mu.Lock()
	c.deadline = t
	c.mu.Unlock()
	c.r.mu.Lock()
	c.r.cond.Broadcast()
	c.r.mu.Unlock()
	return nil
}
func (c *bufConn) SetReadDeadline(t time.Time) error  { return c.SetDeadline(t) }
func (c *bufConn) SetWriteDeadline(t time.Time) error { return nil }
