package harness

import (
	"bufio"
	"encoding/json"
	"fmt"
	"net"
	"os"
	"path/filepath"
	"strings"
	"sync"
	"time"
)

// C08 (e) — the input menu against the REAL daemon over its REAL Unix control socket: representatives of every
// input class are written to one connection; afterwards the daemon process is alive, the same connection (if
// the command did not take it over) and fresh connections answer `status` and `work list`.

type c08RealArgs struct {
	Real   bool
	Name   string
	Class  string
	Expect string
	Then   string
	Setup  string
	Bytes  []byte
}

func execC08Real(a c08RealArgs) CaseOut {
	var out CaseOut
	out.Nontrivial = true
	dir, err := os.MkdirTemp(scratchDir(), "c08r-")
	if err != nil {
		out.violate("harness:c08r-tmp", "%v", err)
		return out
	}
	defer os.RemoveAll(dir)
	defer killStrayRunners(dir)
	d, err := startDaemon(dir, "n1", nil)
	if err != nil {
		out.violate("harness:c08r-daemon", "%v", err)
		if d != nil {
			d.kill()
		}
		return out
	}
	defer d.kill()
	unitID := "nounit00"
	dataDir := filepath.Join(dir, "data", "n1")
	switch a.Setup {
	case "unit":
		if r := d.submit("n1", "long", []byte("x\n"), 10*time.Second); r.ID != "" {
			unitID = r.ID
		}
	case "disk-unit-ok":
		unitID = "diskonly"
		u := filepath.Join(dataDir, unitID)
		os.MkdirAll(u, 0o700)
		os.WriteFile(filepath.Join(u, "status"), []byte(`{"State":2,"Detail":"done","StdoutSize":3,"WorkType":"cat","ExtraData":null}`+"\n"), 0o600)
		os.WriteFile(filepath.Join(u, "stdout"), []byte("abc"), 0o600)
	case "disk-unit-unknown-type":
		unitID = "diskunkn"
		u := filepath.Join(dataDir, unitID)
		os.MkdirAll(u, 0o700)
		os.WriteFile(filepath.Join(u, "status"), []byte(`{"State":1,"Detail":"x","StdoutSize":0,"WorkType":"gone","ExtraData":null}`+"\n"), 0o600)
	case "disk-unit-nostatus":
		unitID = "disknost"
		os.MkdirAll(filepath.Join(dataDir, unitID), 0o700)
	case "disk-unit-corrupt":
		unitID = "diskcorr"
		u := filepath.Join(dataDir, unitID)
		os.MkdirAll(u, 0o700)
		os.WriteFile(filepath.Join(u, "status"), []byte(`{"State":2,"Deta`), 0o600)
	}
	ctx := fmt.Sprintf("real daemon, Unix socket, input %s", a.Name)
	cc, err := d.dial(10 * time.Second)
	if err != nil {
		out.violate("harness:c08r-dial", "%v", err)
		return out
	}
	payload := []byte(strings.ReplaceAll(string(a.Bytes), c08UnitPlaceholder, unitID))
	// (cancelling the running `long` unit alone takes the runner's 10 s grace period; the machine may be busy)
	cc.c.SetDeadline(time.Now().Add(120 * time.Second))
	_, werr := cc.c.Write(payload)
	open := werr == nil
	switch a.Then {
	case "drop":
		cc.c.Close()
		open = false
	case "eof":
		if uc, ok := cc.c.(*net.UnixConn); ok {
			uc.CloseWrite()
		}
	}
	first := ""
	if open && !(a.Expect == "any" && a.Then != "") {
		line, err := cc.r.ReadString('\n')
		first = strings.TrimRight(line, "\n")
		if err != nil {
			if a.Expect == "ERROR" || a.Expect == "reply" {
				out.violate("ctl:no-reply:"+a.Class, "%s: no reply line (%v)", ctx, err)
			}
			open = false
		} else {
			if a.Expect == "ERROR" && !strings.HasPrefix(first, "ERROR") {
				out.violate("ctl:not-refused:"+a.Class, "%s is not a valid command but the reply is %q", ctx, trunc(first, 120))
			}
			if a.Then == "eof" || strings.HasPrefix(first, "Streaming results") || strings.HasPrefix(first, "Connecting") || strings.HasPrefix(first, "Work unit created") {
				open = false
			}
		}
	}
	if open && a.Expect != "any" {
		// same session: skip leftover ERROR lines (malformed JSON is answered with two)
		cc.c.SetDeadline(time.Now().Add(60 * time.Second))
		if _, err := cc.c.Write([]byte("status\n")); err == nil {
			line, err := cc.r.ReadString('\n')
			for i := 0; i < 2 && err == nil && strings.HasPrefix(line, "ERROR"); i++ {
				line, err = cc.r.ReadString('\n')
			}
			if err != nil || !strings.HasPrefix(line, "{") {
				out.violate("ctl:same-session-dead:"+a.Class, "%s: the same connection does not answer `status` (%q, %v)", ctx, trunc(line, 80), err)
			}
		}
	}
	cc.c.Close()
	time.Sleep(100 * time.Millisecond)
	if !d.alive() {
		log := d.logTail()
		key := "ctl:daemon-died:" + a.Class
		if i := strings.Index(log, "panic: "); i >= 0 {
			line := log[i:]
			if j := strings.Index(line, "\n"); j > 0 {
				line = line[:j]
			}
			key = "panic(real daemon): " + line
		}
		out.violate(key, "%s: the daemon process is gone; log: %s", ctx, trunc(log, 600))
		return out
	}
	if line, err := d.ask("status", 60*time.Second); err != nil || !strings.HasPrefix(line, "{") {
		out.violate("ctl:fresh-session-dead:"+a.Class, "%s: a fresh connection does not answer `status` (%q, %v)", ctx, trunc(line, 80), err)
	}
	if line, err := d.ask("work list", 60*time.Second); err != nil || !strings.HasPrefix(line, "{") {
		out.violate("ctl:work-list-dead:"+a.Class, "%s: a fresh connection does not answer `work list` (%q, %v)", ctx, trunc(line, 80), err)
	}
	rs := "none"
	switch {
	case strings.HasPrefix(first, "ERROR"):
		rs = "ERROR"
	case strings.HasPrefix(first, "{"):
		rs = "json"
	case first != "":
		rs = "text"
	}
	out.Outcome = "real " + a.Class + "/" + rs
	return out
}

func execC08(w *W, raw json.RawMessage) CaseOut {
	var a c08RealArgs
	json.Unmarshal(raw, &a)
	return execC08Real(a)
}

func coordC08(c *Coord) {
	c.runShards()
	if c.stopped() {
		return
	}
	p := c.newPool()
	defer p.close()
	var jobs []c08RealArgs
	seen := map[string]int{}
	for _, in := range c08Menu(c.Thorough()) {
		seen[in.Class]++
		limit := 2
		if c.Thorough() {
			limit = 12
		}
		if seen[in.Class] > limit {
			continue
		}
		jobs = append(jobs, c08RealArgs{Real: true, Name: in.Name, Class: in.Class, Expect: in.Expect, Then: in.Then, Setup: in.Setup, Bytes: in.Bytes})
	}
	var wg sync.WaitGroup
	sem := make(chan struct{}, p.size())
	for _, j := range jobs {
		if c.stopped() {
			break
		}
		j := j
		wg.Add(1)
		sem <- struct{}{}
		go func() {
			defer wg.Done()
			defer func() { <-sem }()
			r := p.exec(j)
			raw, _ := json.Marshal(j)
			c.record(fmt.Sprintf("real #%s %s", j.Class, j.Name), raw, r.Out)
		}()
	}
	wg.Wait()
}

var _ = bufio.NewReader
