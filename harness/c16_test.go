package harness

import (
	"context"
	"encoding/json"
	"fmt"
	"strings"
	"sync"
	"testing"
	"testing/synctest"
	"time"

	"github.com/ansible/receptor/pkg/netceptor"
)

// C16 — senders learn when the target service does not exist; dials to it fail fast.

type c16Case struct {
	Topo    string // chain2 chain3 chain4 square
	Src     string
	Dst     string
	Variant string // never-bound | closed-before | close-after-K (K deliveries after the send) | drop-rule | drop-rule-transit
	K       int
	Extra   int    // unrelated subscribed sockets on every node
	Kind    string // datagram | dial
}

func (c c16Case) String() string {
	return fmt.Sprintf("topo=%s %s->%s variant=%s k=%d extra=%d kind=%s", c.Topo, c.Src, c.Dst, c.Variant, c.K, c.Extra, c.Kind)
}

type noticeLog struct {
	mu  sync.Mutex
	got map[string][]netceptor.UnreachableNotification // socket label -> notices
}

func (l *noticeLog) watch(label string, pc netceptor.PacketConner, done chan struct{}) {
	ch := pc.SubscribeUnreachable(done)
	go func() {
		for n := range ch {
			l.mu.Lock()
			l.got[label] = append(l.got[label], n)
			l.mu.Unlock()
		}
	}()
}

func runC16Case(t *testing.T, c c16Case) CaseOut {
	return runC16CaseCh(t, c, nil)
}

func runC16CaseCh(t *testing.T, c c16Case, early chan CaseOut) CaseOut {
	var out CaseOut
	out.Nontrivial = true
	bubble(t, func(t *testing.T) {
		var tp c10Topo
		for _, x := range c10Topos() {
			if x.Name == c.Topo {
				tp = x
			}
		}
		m := newMesh(defaultConsts, tp.Names...)
		for _, e := range tp.Edges {
			m.upEdge(e)
		}
		m.closure(1)
		log := &noticeLog{got: map[string][]netceptor.UnreachableNotification{}}
		done := make(chan struct{})
		// unrelated sockets, all subscribed
		for _, n := range tp.Names {
			for i := 0; i < c.Extra; i++ {
				// names that resemble the sender's: same length, prefix, extension
				pc, err := m.nodes[n].ListenPacket([]string{"SND", "snx", "sn", "sndd"}[i])
				if err != nil {
					out.violate("harness:c16-listen", "%v", err)
					return
				}
				log.watch(fmt.Sprintf("%s:o%d", n, i), pc, done)
			}
		}
		var tgt netceptor.PacketConner
		switch c.Variant {
		case "closed-before":
			pc, _ := m.nodes[c.Dst].ListenPacket("tgt")
			synctest.Wait()
			pc.Close()
		case "close-after-K":
			tgt, _ = m.nodes[c.Dst].ListenPacket("tgt")
			log.watch(c.Dst+":tgt", tgt, done)
		case "drop-rule", "drop-rule-transit":
			at := c.Dst
			if c.Variant == "drop-rule-transit" {
				p := m.routePath(c.Src, c.Dst)
				if len(p) >= 3 {
					at = p[1]
				}
			}
			rules, err := netceptor.ParseFirewallRules([]netceptor.FirewallRuleData{{"action": "drop", "toservice": "tgt"}})
			if err != nil {
				out.violate("harness:c16-rules", "%v", err)
				return
			}
			m.nodes[at].AddFirewallRules(rules, true)
		}
		synctest.Wait()
		start := time.Now()
		handed := false
		var dialErr error
		dialDone := make(chan struct{})
		var snd netceptor.PacketConner
		if c.Kind == "datagram" {
			var err error
			snd, err = m.nodes[c.Src].ListenPacket("snd")
			if err != nil {
				out.violate("harness:c16-listen", "%v", err)
				return
			}
			log.watch(c.Src+":snd", snd, done)
			synctest.Wait()
			_, werr := snd.WriteTo([]byte("hello"), m.nodes[c.Src].NewAddr(c.Dst, "tgt"))
			if werr != nil && c.Src != c.Dst {
				out.violate("unk:write-error", "%s: WriteTo failed: %v", c, werr)
			}
			if c.Src == c.Dst {
				// local delivery: the error is returned synchronously instead of a notice
				if c.Variant == "never-bound" || c.Variant == "closed-before" {
					if werr == nil || !strings.Contains(werr.Error(), netceptor.ProblemServiceUnknown) {
						out.violate("unk:local-send-no-error", "%s: local WriteTo returned %v", c, werr)
					}
				}
			}
		} else {
			go func() {
				ctx, cancel := context.WithTimeout(context.Background(), 60*time.Second)
				defer cancel()
				conn, err := m.nodes[c.Src].DialContext(ctx, c.Dst, "tgt", nil)
				if err == nil {
					conn.Close()
				}
				dialErr = err
				close(dialDone)
			}()
		}
		synctest.Wait()
		// deliver step by step; close the listener after K deliveries
		delivered := 0
		closed := false
		for i := 0; i < 3000; i++ {
			if c.Variant == "close-after-K" && !closed && delivered >= c.K {
				// was the datagram already handed to the listener (blocked in its receive queue)?
				tgt.Close()
				closed = true
				synctest.Wait()
			}
			moved := false
			for _, k := range m.sortedLinks() {
				if m.sess[k].pending() > 0 {
					s := m.sess[k]
					s.mu.Lock()
					d := s.outbox[0].data
					s.mu.Unlock()
					if h, ok := parseData(d); ok && h.ToSvc == "tgt" && strings.HasSuffix(k, ">"+c.Dst) && c.Variant == "close-after-K" && !closed {
						handed = true // reaches the destination while the listener is still open
					}
					m.deliverAt(k, 0)
					delivered++
					moved = true
					break
				}
			}
			if !moved {
				if c.Kind == "dial" {
					select {
					case <-dialDone:
					default:
						time.Sleep(50 * time.Millisecond)
						synctest.Wait()
						if time.Since(start) < 40*time.Second {
							continue
						}
					}
				}
				break
			}
		}
		if c.Variant == "close-after-K" && !closed {
			tgt.Close()
			synctest.Wait()
		}
		time.Sleep(500 * time.Millisecond)
		synctest.Wait()
		m.flush()
		elapsed := time.Since(start)
		if c.Kind == "dial" {
			select {
			case <-dialDone:
			case <-time.After(60 * time.Second):
			}
			elapsed = time.Since(start)
		}
		close(done)
		synctest.Wait()
		log.mu.Lock()
		defer log.mu.Unlock()
		ctx := c.String()
		senderLabel := c.Src + ":snd"
		expectNotice := c.Variant == "never-bound" || c.Variant == "closed-before" || (c.Variant == "close-after-K" && !handed)
		if c.Src == c.Dst {
			expectNotice = false
		}
		if c.Kind == "datagram" {
			for label, ns := range log.got {
				for _, n := range ns {
					if label != senderLabel {
						out.violate("unk:notice-on-foreign-socket", "%s: socket %s received %+v", ctx, label, n)
					}
				}
			}
			ns := log.got[senderLabel]
			switch {
			case strings.HasPrefix(c.Variant, "drop-rule"):
				if len(ns) > 0 {
					out.violate("unk:notice-for-dropped-packet", "%s: a packet dropped by policy produced %+v", ctx, ns)
				}
			case expectNotice:
				if len(ns) != 1 {
					out.violate("unk:notice-count", "%s: sender received %d notices: %+v", ctx, len(ns), ns)
				} else {
					n := ns[0]
					if n.Problem != netceptor.ProblemServiceUnknown || n.FromNode != c.Src || n.FromService != "snd" || n.ToNode != c.Dst || n.ToService != "tgt" || n.ReceivedFromNode != c.Dst {
						out.violate("unk:notice-fields", "%s: notice %+v does not name the original packet", ctx, n)
					}
				}
			case c.Variant == "close-after-K" && handed:
				out.count("handed_to_listener_before_close", 1)
				if len(ns) > 1 {
					out.violate("unk:notice-count", "%s: sender received %d notices", ctx, len(ns))
				}
			}
		} else {
			for label, ns := range log.got {
				if len(ns) > 0 {
					out.violate("unk:notice-on-foreign-socket", "%s: socket %s received %+v during a dial", ctx, label, ns)
				}
			}
			select {
			case <-dialDone:
				if dialErr == nil {
					out.violate("unk:dial-succeeded", "%s: dial to a service nobody listens on succeeded", ctx)
				}
				if strings.HasPrefix(c.Variant, "drop-rule") {
					// no notice exists: the dial may only end by its time-outs
					if elapsed < 5*time.Second {
						out.violate("unk:dial-ended-early-without-notice", "%s: dial ended after %v although the packet was dropped silently (%v)", ctx, elapsed, dialErr)
					}
				} else if c.Src != c.Dst && elapsed > 5*time.Second {
					out.violate("unk:dial-waited-for-timeout", "%s: dial took %v (error %v): it was not abandoned because of the notice", ctx, elapsed, dialErr)
				}
			default:
				out.violate("unk:dial-never-returned", "%s: dial did not return within 100 virtual seconds", ctx)
			}
		}
		out.Outcome = fmt.Sprintf("%s/%s notice=%v", c.Kind, c.Variant, expectNotice)
		// one process per dial execution: tearing down QUIC transports inside a bubble is C17's subject
		if c.Kind == "dial" {
			if early != nil {
				early <- out
			}
			return
		}
		m.end()
	})
	return out
}

// runC16Burst: n datagrams in a row to n different unbound services while the sender's subscriber takes
// `slow` (virtual) per notice: every one of them is reported, once, to the sender only.
func runC16Burst(t *testing.T, topo, src, dst string, n int, slow time.Duration, extra int) CaseOut {
	return runC16BurstX(t, topo, src, dst, n, slow, extra, false, 0)
}

// closedBusy: before the burst an unrelated socket of the sender node, whose subscriber never reads, collects
// two notices of its own and is then closed.
// twin: 1 = a second socket "snd2" of the same node sends to the same n services right behind the first one (each
// socket gets its own notice for each of its datagrams); 2 = the one socket sends every datagram twice (two notices
// per service: every datagram that finds no listener is reported).
func runC16BurstX(t *testing.T, topo, src, dst string, n int, slow time.Duration, extra int, closedBusy bool, twin int) CaseOut {
	var out CaseOut
	out.Nontrivial = true
	bubble(t, func(t *testing.T) {
		var tp c10Topo
		for _, x := range c10Topos() {
			if x.Name == topo {
				tp = x
			}
		}
		m := newMesh(defaultConsts, tp.Names...)
		for _, e := range tp.Edges {
			m.upEdge(e)
		}
		m.closure(1)
		done := make(chan struct{})
		log := &noticeLog{got: map[string][]netceptor.UnreachableNotification{}}
		for i := 0; i < extra; i++ {
			pc, err := m.nodes[src].ListenPacket([]string{"SND", "snx", "sn", "sndd"}[i])
			if err != nil {
				out.violate("harness:c16-listen", "%v", err)
				return
			}
			log.watch(fmt.Sprintf("%s:o%d", src, i), pc, done)
		}
		if closedBusy {
			// five unrelated sockets with subscribers that never read; the first one collects six notices of its own, so
			// that notices are piled up in the node's fan-out when all five are closed
			var xs []netceptor.PacketConner
			xdone := make(chan struct{})
			for i := 0; i < 5; i++ {
				xi, err := m.nodes[src].ListenPacket(fmt.Sprintf("busy%d", i))
				if err != nil {
					out.violate("harness:c16-listen", "%v", err)
					return
				}
				_ = xi.SubscribeUnreachable(xdone) // nobody reads
				xs = append(xs, xi)
			}
			x := xs[0]
			for i := 0; i < 6; i++ {
				x.WriteTo([]byte("x"), m.nodes[src].NewAddr(dst, fmt.Sprintf("nobody%d", i)))
			}
			synctest.Wait()
			xfin := make(chan struct{})
			go func() {
				defer close(xfin)
				for i := 0; i < 200; i++ {
					moved := false
					for _, k := range m.sortedLinks() {
						if m.sess[k].pending() > 0 {
							m.deliverAt(k, 0)
							moved = true
							break
						}
					}
					if !moved {
						return
					}
				}
			}()
			select {
			case <-xfin:
			case <-time.After(5 * time.Second): // the second notice waits behind the subscriber that does not read
			}
			for _, xi := range xs {
				xi.Close()
			}
			close(xdone)
			time.Sleep(500 * time.Millisecond)
			synctest.Wait()
			select {
			case <-xfin:
			case <-time.After(20 * time.Second):
			}
		}
		snd, err := m.nodes[src].ListenPacket("snd")
		if err != nil {
			out.violate("harness:c16-listen", "%v", err)
			return
		}
		ch := snd.SubscribeUnreachable(done)
		var mu sync.Mutex
		var got []netceptor.UnreachableNotification
		go func() {
			for nt := range ch {
				mu.Lock()
				got = append(got, nt)
				mu.Unlock()
				if slow > 0 {
					time.Sleep(slow)
				}
			}
		}()
		var got2 []netceptor.UnreachableNotification
		var snd2 netceptor.PacketConner
		if twin == 1 {
			snd2, err = m.nodes[src].ListenPacket("snd2")
			if err != nil {
				out.violate("harness:c16-listen", "%v", err)
				return
			}
			ch2 := snd2.SubscribeUnreachable(done)
			go func() {
				for nt := range ch2 {
					mu.Lock()
					got2 = append(got2, nt)
					mu.Unlock()
				}
			}()
		}
		synctest.Wait()
		for i := 0; i < n; i++ {
			if _, err := snd.WriteTo([]byte("hello"), m.nodes[src].NewAddr(dst, fmt.Sprintf("tgt%d", i))); err != nil {
				out.violate("unk:write-error", "burst %s->%s #%d: %v", src, dst, i, err)
			}
			if twin == 2 {
				if _, err := snd.WriteTo([]byte("hello again"), m.nodes[src].NewAddr(dst, fmt.Sprintf("tgt%d", i))); err != nil {
					out.violate("unk:write-error", "burst %s->%s #%d (second copy): %v", src, dst, i, err)
				}
			}
			if twin == 1 {
				if _, err := snd2.WriteTo([]byte("hello"), m.nodes[src].NewAddr(dst, fmt.Sprintf("tgt%d", i))); err != nil {
					out.violate("unk:write-error", "burst %s(snd2)->%s #%d: %v", src, dst, i, err)
				}
			}
		}
		synctest.Wait()
		// deliveries run in their own goroutine: a node whose reader is held up by the slow subscriber
		// takes the next message only when the subscriber has moved on
		fin := make(chan struct{})
		go func() {
			defer close(fin)
			for i := 0; i < 2000; i++ {
				moved := false
				for _, k := range m.sortedLinks() {
					if m.sess[k].pending() > 0 {
						m.deliverAt(k, 0)
						moved = true
						break
					}
				}
				if !moved {
					return
				}
			}
		}()
		select {
		case <-fin:
		case <-time.After(120 * time.Second):
			out.violate("unk:burst-stuck", "burst %s->%s n=%d: deliveries did not finish in 120 virtual seconds", src, dst, n)
			return
		}
		time.Sleep(time.Duration(n+2)*slow + 2*time.Second)
		synctest.Wait()
		m.flush()
		time.Sleep(time.Duration(n+2)*slow + 2*time.Second)
		synctest.Wait()
		mu.Lock()
		ctx := fmt.Sprintf("burst topo=%s %s->%s n=%d reader=%v extra=%d after-busy-socket-closed=%v twin=%d", topo, src, dst, n, slow, extra, closedBusy, twin)
		want := 1
		if twin == 2 {
			want = 2
		}
		seen2 := map[string]int{}
		for _, nt := range got2 {
			seen2[nt.ToService]++
			if nt.Problem != netceptor.ProblemServiceUnknown || nt.FromNode != src || nt.FromService != "snd2" || nt.ToNode != dst || nt.ReceivedFromNode != dst {
				out.violate("unk:notice-fields", "%s: second socket: notice %+v does not name the original packet", ctx, nt)
			}
		}
		for i := 0; i < n && twin == 1; i++ {
			svc := fmt.Sprintf("tgt%d", i)
			if seen2[svc] != 1 {
				out.violate(fmt.Sprintf("unk:second-socket-notice-count:%d", seen2[svc]), "%s: the second socket received %d notices for %s (by service: %v)", ctx, seen2[svc], svc, seen2)
			}
		}
		seen := map[string]int{}
		for _, nt := range got {
			seen[nt.ToService]++
			if nt.Problem != netceptor.ProblemServiceUnknown || nt.FromNode != src || nt.FromService != "snd" || nt.ToNode != dst || nt.ReceivedFromNode != dst {
				out.violate("unk:notice-fields", "%s: notice %+v does not name the original packet", ctx, nt)
			}
		}
		for i := 0; i < n; i++ {
			svc := fmt.Sprintf("tgt%d", i)
			if seen[svc] != want {
				out.violate(fmt.Sprintf("unk:burst-notice-count:%d", seen[svc]), "%s: %d notices for %s (all notices by service: %v)", ctx, seen[svc], svc, seen)
			}
		}
		mu.Unlock()
		close(done)
		synctest.Wait()
		log.mu.Lock()
		for label, ns := range log.got {
			if len(ns) > 0 {
				out.violate("unk:notice-on-foreign-socket", "%s: socket %s received %+v", ctx, label, ns)
			}
		}
		log.mu.Unlock()
		out.Outcome = fmt.Sprintf("burst n=%d slow=%v", n, slow > 0)
		m.end()
	})
	return out
}

func runC16(w *W) {
	for _, pr := range [][3]string{{"chain2", "a", "b"}, {"square", "a", "c"}} {
		for _, n := range []int{1, 2, 3} {
			pr, n := pr, n
			w.Case(fmt.Sprintf("burst after a busy unrelated socket was closed topo=%s %s->%s n=%d", pr[0], pr[1], pr[2], n), func() CaseOut {
				return runC16BurstX(w.T, pr[0], pr[1], pr[2], n, 0, 1, true, 0)
			})
		}
	}
	for _, pr := range [][3]string{{"chain2", "a", "b"}, {"chain3", "a", "c"}, {"square", "a", "c"}} {
		for _, n := range []int{1, 2, 3} {
			for _, twin := range []int{1, 2} {
				pr, n, twin := pr, n, twin
				w.Case(fmt.Sprintf("burst twin=%d topo=%s %s->%s n=%d", twin, pr[0], pr[1], pr[2], n), func() CaseOut {
					return runC16BurstX(w.T, pr[0], pr[1], pr[2], n, 0, 1, false, twin)
				})
			}
		}
	}
	for _, pr := range [][3]string{{"chain2", "a", "b"}, {"chain3", "a", "c"}, {"square", "a", "c"}} {
		for _, n := range []int{1, 2, 3, 5} {
			for _, slow := range []time.Duration{0, 100 * time.Millisecond} {
				for _, extra := range []int{0, 1} {
					pr, n, slow, extra := pr, n, slow, extra
					w.Case(fmt.Sprintf("burst topo=%s %s->%s n=%d reader=%v extra=%d", pr[0], pr[1], pr[2], n, slow, extra), func() CaseOut {
						return runC16Burst(w.T, pr[0], pr[1], pr[2], n, slow, extra)
					})
				}
			}
		}
	}
	type pair struct{ topo, src, dst string }
	pairs := []pair{{"chain2", "a", "b"}, {"chain3", "a", "c"}, {"chain3", "b", "a"}, {"chain4", "a", "d"}, {"square", "a", "c"}, {"square", "d", "b"}, {"chain2", "a", "a"}}
	for _, p := range pairs {
		hops := map[string]int{"chain2": 1, "chain3": 2, "chain4": 3, "square": 2}[p.topo]
		if p.topo == "chain3" && p.src == "b" {
			hops = 1
		}
		if p.src == p.dst {
			hops = 0
		}
		for _, extra := range []int{0, 1, 4} {
			variants := []c16Case{{Variant: "never-bound"}, {Variant: "closed-before"}, {Variant: "drop-rule"}}
			if hops >= 2 {
				variants = append(variants, c16Case{Variant: "drop-rule-transit"})
			}
			for k := 0; k <= hops+1 && p.src != p.dst; k++ { // a local send is synchronous: there is no "between"
				variants = append(variants, c16Case{Variant: "close-after-K", K: k})
			}
			for _, v := range variants {
				c := c16Case{Topo: p.topo, Src: p.src, Dst: p.dst, Variant: v.Variant, K: v.K, Extra: extra, Kind: "datagram"}
				w.Case(c.String(), func() CaseOut {
					o := runC16Case(w.T, c)
					if extra == 1 && c.Variant == "never-bound" {
						o.Sample = map[string]any{"case": c.String(), "outcome": o.Outcome}
					}
					return o
				})
			}
		}
	}
}

// dials run one per process (QUIC transports are not torn down inside the bubble)
func runC16Dial(w *W, args []byte) CaseOut {
	var c c16Case
	json.Unmarshal(args, &c)
	// the bubble may never end (QUIC transports are left running): hand the result out as soon as it exists
	res := make(chan CaseOut, 1)
	go func() {
		defer func() { recover() }()
		runC16CaseCh(w.T, c, res)
	}()
	select {
	case o := <-res:
		return o
	case <-time.After(80 * time.Second):
		return CaseOut{Viol: []Violation{{Key: "hang:c16-dial", Msg: "the dial scenario made no progress for 80 s of real time: " + c.String()}}}
	}
}

func coordC16(c *Coord) {
	c.runShards()
	if c.stopped() {
		return
	}
	p := c.newPool()
	var wg sync.WaitGroup
	type pair struct{ topo, src, dst string }
	for _, pr := range []pair{{"chain2", "a", "b"}, {"chain3", "a", "c"}, {"chain4", "a", "d"}, {"square", "a", "c"}} {
		for _, v := range []string{"never-bound", "closed-before", "drop-rule"} {
			for _, extra := range []int{0, 3} {
				if !c.Thorough() && extra == 3 && pr.topo != "chain3" {
					continue
				}
				cs := c16Case{Topo: pr.topo, Src: pr.src, Dst: pr.dst, Variant: v, Extra: extra, Kind: "dial"}
				wg.Add(1)
				go func() {
					defer wg.Done()
					r := p.exec(cs)
					raw, _ := json.Marshal(cs)
					c.record(cs.String(), raw, r.Out)
				}()
			}
		}
	}
	wg.Wait()
	p.close()
}

func init() {
	register(&PropSpec{
		ID:        "C16",
		Level:     "model_checking",
		Technique: "exhaustive enumeration of (topology, sender, target, moment of closing relative to every delivery step, number of unrelated sockets) on real nodes in a synctest bubble with harness-owned links; every socket of every node is subscribed and must stay silent except the sender's",
		Rule: "chains of 1-3 hops, the two-path square and local delivery; target service never bound / closed before the send / closed after each of 0..hops+1 deliveries of the send / silently dropped by a firewall rule at the destination or at a transit node; 0, 1, 4 unrelated subscribed sockets on every node (names that differ from the sender's only in letter case, have the same length, are a prefix or an extension of it); stream dials (never bound, closed before, drop rule) on 1-3 hop paths, one process each; bursts of 1, 2, 3, 5 datagrams to as many unbound services with a subscriber that reads at once or takes 100 ms per notice, also right after five unrelated sockets of the sender node whose subscribers never read (one of them with six notices of its own piled up) were closed. " +
			"Every case is a distinct configuration and non-trivial. Oracle: exactly one `service unknown` notice, on the sender's socket only, echoing source and destination, reported by the destination node; none for dropped packets; a dial ends within 5 virtual seconds because of the notice (and only by its time-outs when the packet is dropped).",
		Assumptions: []string{"a datagram that was already handed to a live listener when it closed is outside the statement's premise (counted in counters.handed_to_listener_before_close)"},
		Run:         runC16,
		Exec:        func(w *W, args json.RawMessage) CaseOut { return runC16Dial(w, args) },
		Coord:       coordC16,
		CaseTimeout: 90 * time.Second,
	})
}
