package harness

import (
	"crypto/ecdsa"
	"crypto/elliptic"
	"crypto/rand"
	"crypto/sha256"
	"crypto/sha512"
	"crypto/tls"
	"crypto/x509"
	"crypto/x509/pkix"
	"encoding/asn1"
	"encoding/hex"
	"encoding/pem"
	"fmt"
	"math/big"
	"os"
	"path/filepath"
	"strings"
	"testing"
	"sync"
	"time"

	"github.com/ansible/receptor/pkg/netceptor"
	"github.com/ansible/receptor/pkg/utils"
)

// C09 — TLS peers need a trusted chain, a matching pin and the expected node ID.

type c09PKI struct {
	caCert, otherCert *x509.Certificate
	caKey, otherKey   *ecdsa.PrivateKey
	pool              *x509.CertPool
	dir               string
	caFile            string
}

var (
	c09Once sync.Once
	c09     *c09PKI
)

func newCA(cn string) (*x509.Certificate, *ecdsa.PrivateKey) {
	key, _ := ecdsa.GenerateKey(elliptic.P256(), rand.Reader)
	t := &x509.Certificate{SerialNumber: big.NewInt(1), Subject: pkix.Name{CommonName: cn}, NotBefore: time.Date(1990, 1, 1, 0, 0, 0, 0, time.UTC), NotAfter: time.Date(2100, 1, 1, 0, 0, 0, 0, time.UTC),
		IsCA: true, BasicConstraintsValid: true, KeyUsage: x509.KeyUsageCertSign | x509.KeyUsageDigitalSignature}
	der, err := x509.CreateCertificate(rand.Reader, t, t, &key.PublicKey, key)
	if err != nil {
		panic(err)
	}
	c, _ := x509.ParseCertificate(der)
	return c, key
}

func c09Setup() *c09PKI {
	c09Once.Do(func() {
		p := &c09PKI{}
		p.caCert, p.caKey = newCA("trusted CA")
		p.otherCert, p.otherKey = newCA("other CA")
		p.pool = x509.NewCertPool()
		p.pool.AddCert(p.caCert)
		p.dir, _ = os.MkdirTemp(scratchDir(), "c09-")
		p.caFile = filepath.Join(p.dir, "ca.pem")
		os.WriteFile(p.caFile, pem.EncodeToMemory(&pem.Block{Type: "CERTIFICATE", Bytes: p.caCert.Raw}), 0o600)
		c09 = p
	})
	return c09
}

type c09CertSpec struct {
	Issuer   string // trusted | other | self
	Validity string // valid | expired | notyet
	EKU      string // server | client | both | absent | other
	Names    string // expected | otherid | several-incl | several-excl | none | dns-only | dns+id | prefix-id
}

var (
	c09Issuers    = []string{"trusted", "other", "self"}
	c09Validities = []string{"valid", "expired", "notyet"}
	c09EKUs       = []string{"server", "client", "both", "absent", "other"}
	c09Names      = []string{"expected", "otherid", "several-incl", "several-excl", "none", "dns-only", "dns+id", "prefix-id"}
)

const c09Expected = "nodeA"

type c09Cert struct {
	spec c09CertSpec
	der  []byte
	key  *ecdsa.PrivateKey
	cert *x509.Certificate
}

func (p *c09PKI) makeCustom(spec c09CertSpec, ids []string) c09Cert {
	return p.makeWith(spec, ids, true)
}

func (p *c09PKI) make(spec c09CertSpec) c09Cert { return p.makeWith(spec, nil, false) }

func (p *c09PKI) makeWith(spec c09CertSpec, customIDs []string, custom bool) c09Cert {
	key, _ := ecdsa.GenerateKey(elliptic.P256(), rand.Reader)
	t := &x509.Certificate{SerialNumber: big.NewInt(time.Now().UnixNano()), Subject: pkix.Name{CommonName: "leaf"}, KeyUsage: x509.KeyUsageDigitalSignature}
	now := time.Now()
	switch spec.Validity {
	case "valid":
		t.NotBefore, t.NotAfter = now.Add(-time.Hour), now.Add(24*time.Hour)
	case "expired":
		t.NotBefore, t.NotAfter = now.Add(-48*time.Hour), now.Add(-time.Hour)
	case "notyet":
		t.NotBefore, t.NotAfter = now.Add(24*time.Hour), now.Add(48*time.Hour)
	}
	switch spec.EKU {
	case "server":
		t.ExtKeyUsage = []x509.ExtKeyUsage{x509.ExtKeyUsageServerAuth}
	case "client":
		t.ExtKeyUsage = []x509.ExtKeyUsage{x509.ExtKeyUsageClientAuth}
	case "both":
		t.ExtKeyUsage = []x509.ExtKeyUsage{x509.ExtKeyUsageServerAuth, x509.ExtKeyUsageClientAuth}
	case "other":
		t.ExtKeyUsage = []x509.ExtKeyUsage{x509.ExtKeyUsageCodeSigning}
	}
	var ids, dns []string
	switch spec.Names {
	case "expected":
		ids = []string{c09Expected}
	case "otherid":
		ids = []string{"nodeB"}
	case "several-incl":
		ids = []string{"nodeB", c09Expected, "nodeC"}
	case "several-excl":
		ids = []string{"nodeB", "nodeC"}
	case "dns-only":
		dns = []string{c09Expected}
	case "dns+id":
		dns = []string{c09Expected}
		ids = []string{c09Expected}
	case "prefix-id":
		ids = []string{c09Expected + "x", c09Expected[:len(c09Expected)-1], strings.ToLower(c09Expected)}
	}
	if custom {
		ids = customIDs
		// used inside synctest bubbles, whose clock starts in the year 2000
		t.NotBefore, t.NotAfter = time.Date(1990, 1, 1, 0, 0, 0, 0, time.UTC), time.Date(2100, 1, 1, 0, 0, 0, 0, time.UTC)
	}
	if len(ids)+len(dns) > 0 {
		var gen []asn1.RawValue
		for _, d := range dns {
			gen = append(gen, asn1.RawValue{Tag: 2, Class: 2, Bytes: []byte(d)})
		}
		for _, id := range ids {
			gen = append(gen, otherName(utils.OIDReceptorName, id))
		}
		san, _ := asn1.Marshal(gen)
		t.ExtraExtensions = []pkix.Extension{{Id: utils.OIDSubjectAltName, Value: san}}
	}
	parent, pkey := p.caCert, p.caKey
	switch spec.Issuer {
	case "other":
		parent, pkey = p.otherCert, p.otherKey
	case "self":
		parent, pkey = t, key
	}
	der, err := x509.CreateCertificate(rand.Reader, t, parent, &key.PublicKey, pkey)
	if err != nil {
		panic(err)
	}
	c, err := x509.ParseCertificate(der)
	if err != nil {
		panic(err)
	}
	return c09Cert{spec: spec, der: der, key: key, cert: c}
}

// pin list kinds
var c09Pins = []string{"none", "sha256-hit", "sha512-hit", "sha224-hit", "sha384-hit", "miss32", "miss64", "wronglen", "miss-then-hit", "hit-then-miss", "two-misses"}

func c09PinList(kind string, der []byte) [][]byte {
	s256 := sha256.Sum256(der)
	s512 := sha512.Sum512(der)
	s224 := sha256.Sum224(der)
	s384 := sha512.Sum384(der)
	miss32 := make([]byte, 32)
	miss64 := make([]byte, 64)
	switch kind {
	case "sha256-hit":
		return [][]byte{s256[:]}
	case "sha512-hit":
		return [][]byte{s512[:]}
	case "sha224-hit":
		return [][]byte{s224[:]}
	case "sha384-hit":
		return [][]byte{s384[:]}
	case "miss32":
		return [][]byte{miss32}
	case "miss64":
		return [][]byte{miss64}
	case "wronglen":
		return [][]byte{make([]byte, 20)}
	case "miss-then-hit":
		return [][]byte{miss32, s512[:]}
	case "hit-then-miss":
		return [][]byte{s256[:], miss64}
	case "two-misses":
		return [][]byte{miss32, miss64}
	}
	return nil
}

// refAccept is the statement's conjunction. role: "server" = we verify a server certificate.
func c09RefAccept(spec c09CertSpec, pin string, role string, nameMode string) (bool, string) {
	if spec.Issuer != "trusted" {
		return false, "issuer"
	}
	if spec.Validity != "valid" {
		return false, "validity"
	}
	switch spec.EKU {
	case "other":
		return false, "eku"
	case "server":
		if role != "server" {
			return false, "eku"
		}
	case "client":
		if role != "client" {
			return false, "eku"
		}
	}
	switch pin {
	case "miss32", "miss64", "wronglen", "two-misses":
		return false, "pin"
	}
	switch nameMode {
	case "receptor":
		switch spec.Names {
		case "expected", "several-incl", "dns+id":
		default:
			return false, "name"
		}
	case "dns":
		switch spec.Names {
		case "dns-only", "dns+id":
		default:
			return false, "name"
		}
	}
	return true, ""
}

func c09Key(spec c09CertSpec, pin, role, mode, what, cond string) string {
	return fmt.Sprintf("tls:%s:%s:%s:%s", what, cond, role, mode)
}

func runC09(w *W) {
	p := c09Setup()
	// ---------- level 1: the verification function itself, full product
	for _, is := range c09Issuers {
		for _, va := range c09Validities {
			for _, ek := range c09EKUs {
				for _, nm := range c09Names {
					spec := c09CertSpec{is, va, ek, nm}
					w.Case(fmt.Sprintf("L1 cert=%+v", spec), func() CaseOut {
						var out CaseOut
						out.Nontrivial = true
						c := p.make(spec)
						acc := 0
						for _, pin := range c09Pins {
							pins := c09PinList(pin, c.der)
							for _, role := range []string{"server", "client"} {
								vt := netceptor.VerifyServer
								if role == "client" {
									vt = netceptor.VerifyClient
								}
								for _, mode := range []string{"receptor", "dns", "noname"} {
									var ht netceptor.ExpectedHostnameType = netceptor.ExpectedHostnameTypeReceptor
									exp := c09Expected
									if mode == "dns" {
										ht = netceptor.ExpectedHostnameTypeDNS
									}
									if mode == "noname" {
										ht = netceptor.ExpectedHostnameTypeDNS
										exp = ""
									}
									cfg := &tls.Config{RootCAs: p.pool, ClientCAs: p.pool}
									f := netceptor.ReceptorVerifyFunc(cfg, pins, exp, ht, vt, quietLogger())
									err := f([][]byte{c.der}, nil)
									want, cond := c09RefAccept(spec, pin, role, mode)
									out.count("decisions", 1)
									if want {
										acc++
									}
									if want && err != nil {
										out.violate(c09Key(spec, pin, role, mode, "rejected-good", "all-conditions-hold"), "cert %+v pins=%s role=%s mode=%s: all conditions hold but verification fails: %v", spec, pin, role, mode, err)
									}
									if !want && err == nil {
										out.violate(c09Key(spec, pin, role, mode, "accepted-bad", cond), "cert %+v pins=%s role=%s mode=%s: condition %q fails but the certificate is accepted", spec, pin, role, mode, cond)
									}
								}
							}
						}
						// no certificate at all
						cfg := &tls.Config{RootCAs: p.pool, ClientCAs: p.pool}
						if netceptor.ReceptorVerifyFunc(cfg, nil, c09Expected, netceptor.ExpectedHostnameTypeReceptor, netceptor.VerifyServer, quietLogger())(nil, nil) == nil {
							out.violate("tls:accepted-bad:no-certificate", "verification with no peer certificate succeeds")
						}
						out.Outcome = fmt.Sprintf("L1 accepted=%d", acc)
						if spec.Issuer == "trusted" && spec.Validity == "valid" && spec.EKU == "both" {
							out.Sample = map[string]any{"cert": spec, "accepted_combinations": acc, "of": len(c09Pins) * 6}
						}
						return out
					})
				}
			}
		}
	}
	// ---------- sequences through one long-lived configuration
	for _, pin := range []string{"sha256-hit", "sha512-hit", "sha224-hit", "sha384-hit", "miss-then-hit", "hit-then-miss", "miss32"} {
		pin := pin
		w.Case("Lseq pins="+pin, func() CaseOut { return c09Sequences(p, pin, w.Thorough()) })
	}
	for _, role := range []string{"server", "client"} {
		role := role
		w.Case("Ltime role="+role, func() CaseOut { return c09Time(w.T, role) })
	}
	// ---------- level 2: real crypto/tls handshakes with the configurations receptor builds
	for _, is := range c09Issuers {
		for _, va := range c09Validities {
			for _, ek := range c09EKUs {
				for _, nm := range c09Names {
					spec := c09CertSpec{is, va, ek, nm}
					if !w.Thorough() {
						// quick: every cert whose reference verdict is "accept" in some mode, plus one failing condition at a time
						bad := 0
						if is != "trusted" {
							bad++
						}
						if va != "valid" {
							bad++
						}
						if ek == "other" {
							bad++
						}
						if bad > 1 {
							continue
						}
					}
					w.Case(fmt.Sprintf("L2 cert=%+v", spec), func() CaseOut { return c09Handshakes(p, spec, w.Thorough()) })
				}
			}
		}
	}
}

// c09Sequences: one long-lived configuration judges several peers in a row (a listener serves many clients,
// a dialer re-dials with the configuration it fetched once). Oracle: the verdict on a certificate does not
// depend on which certificates the same configuration judged before (differential against a fresh one, whose
// verdicts level 1 compares with the statement).
func c09Sequences(p *c09PKI, pin string, thorough bool) CaseOut {
	var out CaseOut
	out.Nontrivial = true
	good := c09CertSpec{"trusted", "valid", "both", "dns+id"}
	menu := []c09Cert{p.make(good), p.make(good), p.make(c09CertSpec{"trusted", "expired", "both", "dns+id"}), p.make(c09CertSpec{"other", "valid", "both", "dns+id"})}
	names := []string{"A(pinned)", "B(trusted, not pinned)", "C(expired)", "D(other CA)"}
	pins := c09PinList(pin, menu[0].der)
	maxLen := 3
	var seqs [][]int
	var rec func(q []int)
	rec = func(q []int) {
		if len(q) > 1 {
			seqs = append(seqs, append([]int{}, q...))
		}
		if len(q) == maxLen {
			return
		}
		for i := range menu {
			rec(append(q, i))
		}
	}
	rec(nil)
	for _, role := range []string{"server", "client"} {
		vt := netceptor.VerifyServer
		if role == "client" {
			vt = netceptor.VerifyClient
		}
		mk := func() func([][]byte, [][]*x509.Certificate) error {
			cfg := &tls.Config{RootCAs: p.pool, ClientCAs: p.pool}
			return netceptor.ReceptorVerifyFunc(cfg, pins, c09Expected, netceptor.ExpectedHostnameTypeReceptor, vt, quietLogger())
		}
		fresh := make([]bool, len(menu))
		for i, c := range menu {
			fresh[i] = mk()([][]byte{c.der}, nil) == nil
		}
		if !fresh[0] && pin != "miss32" {
			out.violate("tls:seq:pinned-cert-rejected:"+role, "pins=%s role=%s: the pinned certificate is rejected by a fresh configuration", pin, role)
		}
		for _, q := range seqs {
			f := mk()
			for step, i := range q {
				got := f([][]byte{menu[i].der}, nil) == nil
				out.count("sequence_decisions", 1)
				if got != fresh[i] {
					var hist []string
					for _, j := range q[:step] {
						hist = append(hist, names[j])
					}
					kind := "accepted-after-history"
					if !got {
						kind = "rejected-after-history"
					}
					out.violate("tls:seq:"+kind+":"+role, "pins=%s role=%s: certificate %s is judged %v by a fresh configuration but %v after the same configuration judged %v", pin, role, names[i], fresh[i], got, hist)
				}
			}
		}
	}
	// chains: what a peer sends along with its certificate may complete a chain to the configured authority, it
	// never becomes an authority itself — neither for this handshake nor for later ones through the same configuration
	if pin == "sha256-hit" {
		foreign := menu[3] // signed by the other authority
		for _, role := range []string{"server", "client"} {
			vt := netceptor.VerifyServer
			if role == "client" {
				vt = netceptor.VerifyClient
			}
			cfg := &tls.Config{RootCAs: p.pool, ClientCAs: p.pool}
			f := netceptor.ReceptorVerifyFunc(cfg, nil, c09Expected, netceptor.ExpectedHostnameTypeReceptor, vt, quietLogger())
			steps := []struct {
				name string
				raw  [][]byte
				want bool
			}{
				{"leaf of the other authority alone", [][]byte{foreign.der}, false},
				{"leaf of the other authority followed by that authority's certificate", [][]byte{foreign.der, p.otherCert.Raw}, false},
				{"leaf of the other authority alone, afterwards", [][]byte{foreign.der}, false},
				{"good leaf followed by the other authority's certificate", [][]byte{menu[0].der, p.otherCert.Raw}, true},
				{"leaf of the other authority alone, once more", [][]byte{foreign.der}, false},
				{"good leaf followed by the trusted authority's own certificate", [][]byte{menu[0].der, p.caCert.Raw}, true},
			}
			for _, st := range steps {
				got := f(st.raw, nil) == nil
				out.count("chain_decisions", 1)
				if got != st.want {
					out.violate(fmt.Sprintf("tls:chain:judged-%v-want-%v:%s", got, st.want, role), "role=%s: %s: accepted=%v", role, st.name, got)
				}
			}
		}
	}
	// the same with real handshakes through the configurations receptor builds
	if pin == "sha256-hit" || pin == "sha512-hit" || pin == "miss-then-hit" || thorough {
		dir, _ := os.MkdirTemp(p.dir, "seq-")
		defer os.RemoveAll(dir)
		own := p.make(good)
		ownCert, ownKey := pemCertKey(dir, "own", own)
		n := netceptor.New(nil, c09Expected)
		n.Logger.SetOutput(nopWriter{})
		defer n.Shutdown()
		scfg := netceptor.TLSServerConfig{Name: "s", Cert: ownCert, Key: ownKey, RequireClientCert: true, ClientCAs: p.caFile, PinnedClientCert: hexPins(pins), SkipReceptorNamesCheck: true}
		sv, err := scfg.PrepareTLSServerConfig(n)
		ccfg := netceptor.TLSClientConfig{Name: "c", Cert: ownCert, Key: ownKey, RootCAs: p.caFile, PinnedServerCert: hexPins(pins), SkipReceptorNamesCheck: true}
		base, fps, err2 := ccfg.PrepareTLSClientConfig(n)
		if err == nil && err2 == nil {
			n.SetClientTLSConfig("c", base, fps)
			cl, err := n.GetClientTLSConfig("c", c09Expected, netceptor.ExpectedHostnameTypeReceptor)
			if err != nil {
				out.violate("tls:getclientconfig", "GetClientTLSConfig: %v", err)
				return out
			}
			peer := func(i int) *tls.Config {
				return &tls.Config{Certificates: []tls.Certificate{{Certificate: [][]byte{menu[i].der}, PrivateKey: menu[i].key}}, RootCAs: p.pool, ServerName: c09Expected, MinVersion: tls.VersionTLS12}
			}
			want := []bool{pin != "miss32", false, false, false}
			for _, q := range [][]int{{0, 1}, {1, 0}, {0, 1, 0}, {0, 2}, {0, 3}, {0, 0, 1}} {
				for step, i := range q {
					// listener side: one server configuration, clients in a row
					ok, _, _ := handshake(peer(i), sv)
					out.count("sequence_handshakes", 1)
					if ok != want[i] {
						out.violate(fmt.Sprintf("tls:seq:handshake:client-cert-judged-%v-want-%v", ok, want[i]), "pins=%s: listener configuration, handshake #%d of sequence %v with client %s: accepted=%v", pin, step+1, q, names[i], ok)
					}
					// dialer side: the configuration fetched once, servers in a row
					ok, _, _ = handshake(cl, peer(i))
					out.count("sequence_handshakes", 1)
					if ok != want[i] {
						out.violate(fmt.Sprintf("tls:seq:handshake:server-cert-judged-%v-want-%v", ok, want[i]), "pins=%s: dialer configuration, handshake #%d of sequence %v with server %s: accepted=%v", pin, step+1, q, names[i], ok)
					}
				}
				// a new sequence starts from fresh configurations
				sv, _ = scfg.PrepareTLSServerConfig(n)
				base, fps, _ = ccfg.PrepareTLSClientConfig(n)
				n.SetClientTLSConfig("c", base, fps)
				cl, _ = n.GetClientTLSConfig("c", c09Expected, netceptor.ExpectedHostnameTypeReceptor)
			}
		}
	}
	out.Outcome = "seq pin=" + pin
	return out
}

// c09Time: the validity window is judged at the time of the handshake, not at the time the configuration was
// made: one long-lived verification function / listener configuration / dialer configuration, a certificate
// that expires (and one that becomes valid) while it is in use — in a bubble, 25 virtual hours pass.
func c09Time(t *testing.T, role string) CaseOut {
	var out CaseOut
	out.Nontrivial = true
	bubble(t, func(t *testing.T) {
		p := c09Setup()
		soon := p.make(c09CertSpec{"trusted", "valid", "both", "dns+id"})   // valid now, expired in 25 h
		later := p.make(c09CertSpec{"trusted", "notyet", "both", "dns+id"}) // not yet valid now, valid in 25 h
		vt := netceptor.VerifyServer
		if role == "client" {
			vt = netceptor.VerifyClient
		}
		cfg := &tls.Config{RootCAs: p.pool, ClientCAs: p.pool}
		f := netceptor.ReceptorVerifyFunc(cfg, nil, c09Expected, netceptor.ExpectedHostnameTypeReceptor, vt, quietLogger())
		dir, _ := os.MkdirTemp(p.dir, "time-")
		defer os.RemoveAll(dir)
		own := p.makeCustom(c09CertSpec{"trusted", "valid", "both", "dns+id"}, []string{c09Expected}) // 1990-2100
		ownCert, ownKey := pemCertKey(dir, "own", own)
		n := netceptor.New(nil, c09Expected)
		n.Logger.SetOutput(nopWriter{})
		var sv, cl *tls.Config
		if role == "client" {
			scfg := netceptor.TLSServerConfig{Name: "s", Cert: ownCert, Key: ownKey, RequireClientCert: true, ClientCAs: p.caFile, SkipReceptorNamesCheck: true}
			sv, _ = scfg.PrepareTLSServerConfig(n)
		} else {
			ccfg := netceptor.TLSClientConfig{Name: "c", Cert: ownCert, Key: ownKey, RootCAs: p.caFile, SkipReceptorNamesCheck: true}
			if base, fps, err := ccfg.PrepareTLSClientConfig(n); err == nil {
				n.SetClientTLSConfig("c", base, fps)
				cl, _ = n.GetClientTLSConfig("c", c09Expected, netceptor.ExpectedHostnameTypeReceptor)
			}
		}
		peer := func(c c09Cert) *tls.Config {
			return &tls.Config{Certificates: []tls.Certificate{{Certificate: [][]byte{c.der}, PrivateKey: c.key}}, RootCAs: p.pool, ServerName: c09Expected, MinVersion: tls.VersionTLS12}
		}
		judge := func(when string, c c09Cert, name string, want bool) {
			got := f([][]byte{c.der}, nil) == nil
			out.count("time_decisions", 1)
			if got != want {
				out.violate(fmt.Sprintf("tls:time:%s:verify-func-says-%v:%s", name, got, role), "role=%s, %s: the long-lived verification function judges the certificate that is %s as accepted=%v", role, when, name, got)
			}
			fresh := netceptor.ReceptorVerifyFunc(cfg, nil, c09Expected, netceptor.ExpectedHostnameTypeReceptor, vt, quietLogger())([][]byte{c.der}, nil) == nil
			if fresh != want {
				out.violate(fmt.Sprintf("tls:time:%s:fresh-verify-func-says-%v:%s", name, fresh, role), "role=%s, %s: a fresh verification function judges the certificate that is %s as accepted=%v", role, when, name, fresh)
			}
			var ok bool
			if role == "client" && sv != nil {
				ok, _, _ = handshake(peer(c), sv)
			} else if role == "server" && cl != nil {
				ok, _, _ = handshake(cl, peer(c))
			} else {
				return
			}
			out.count("time_handshakes", 1)
			if ok != want {
				out.violate(fmt.Sprintf("tls:time:%s:handshake-%v:%s", name, ok, role), "role=%s, %s: a handshake through the long-lived configuration with the certificate that is %s succeeded=%v", role, when, name, ok)
			}
		}
		judge("at the start", soon, "valid-now-expired-later", true)
		judge("at the start", later, "not-yet-valid-now-valid-later", false)
		time.Sleep(25 * time.Hour)
		judge("25 hours later", soon, "valid-now-expired-later", false)
		judge("25 hours later", later, "not-yet-valid-now-valid-later", true)
		n.Shutdown()
	})
	out.Outcome = "time role=" + role
	return out
}

func pemCertKey(dir, name string, c c09Cert) (certFile, keyFile string) {
	certFile = filepath.Join(dir, name+".crt")
	keyFile = filepath.Join(dir, name+".key")
	os.WriteFile(certFile, pem.EncodeToMemory(&pem.Block{Type: "CERTIFICATE", Bytes: c.der}), 0o600)
	kb, _ := x509.MarshalECPrivateKey(c.key)
	os.WriteFile(keyFile, pem.EncodeToMemory(&pem.Block{Type: "EC PRIVATE KEY", Bytes: kb}), 0o600)
	return
}

func hexPins(pins [][]byte) []string {
	var o []string
	for _, p := range pins {
		o = append(o, hex.EncodeToString(p))
	}
	return o
}

// handshake runs a TLS handshake over an in-memory pipe and reports whether both sides completed it.
func handshake(client, server *tls.Config) (ok bool, cerr, serr error) {
	a, b := bufPipe()
	defer a.Close()
	defer b.Close()
	dl := time.Now().Add(20 * time.Second)
	a.SetDeadline(dl)
	b.SetDeadline(dl)
	done := make(chan error, 1)
	go func() {
		s := tls.Server(b, server)
		err := s.Handshake()
		if err == nil {
			// TLS 1.3: the client learns about a rejected client certificate only on its first read
			_, err = s.Write([]byte{1})
		}
		done <- err
	}()
	c := tls.Client(a, client)
	cerr = c.Handshake()
	if cerr == nil {
		buf := make([]byte, 1)
		_, cerr = c.Read(buf)
	}
	if cerr != nil {
		a.Close()
	}
	serr = <-done
	return cerr == nil && serr == nil, cerr, serr
}

func c09Handshakes(p *c09PKI, spec c09CertSpec, thorough bool) CaseOut {
	var out CaseOut
	out.Nontrivial = true
	dir, _ := os.MkdirTemp(p.dir, "hs-")
	defer os.RemoveAll(dir)
	leaf := p.make(spec)
	good := p.make(c09CertSpec{"trusted", "valid", "both", "dns+id"})
	leafCert, leafKey := pemCertKey(dir, "leaf", leaf)
	goodCert, goodKey := pemCertKey(dir, "good", good)
	n := netceptor.New(nil, c09Expected)
	n.Logger.SetOutput(nopWriter{})
	defer n.Shutdown()
	pins := c09Pins
	if !thorough {
		pins = []string{"none", "sha256-hit", "sha512-hit", "miss32", "wronglen", "miss-then-hit", "two-misses"}
	}
	accepted := 0
	for _, pin := range pins {
		pl := c09PinList(pin, leaf.der)
		// (a) we are the client: the leaf is the server's certificate
		ccfg := netceptor.TLSClientConfig{Name: "c", Cert: goodCert, Key: goodKey, RootCAs: p.caFile, PinnedServerCert: hexPins(pl), SkipReceptorNamesCheck: true}
		base, fps, err := ccfg.PrepareTLSClientConfig(n)
		srv := &tls.Config{Certificates: []tls.Certificate{{Certificate: [][]byte{leaf.der}, PrivateKey: leaf.key}}, MinVersion: tls.VersionTLS12}
		if err != nil {
			// configuration refused (pins of unsupported length): nothing can be accepted through it
			if pin != "wronglen" && pin != "sha224-hit" && pin != "sha384-hit" {
				out.violate("tls:client-config-refused:"+pin, "PrepareTLSClientConfig refused pins %s: %v", pin, err)
			}
		} else {
			n.SetClientTLSConfig("c", base, fps)
			for _, mode := range []string{"receptor", "dns"} {
				var ht netceptor.ExpectedHostnameType = netceptor.ExpectedHostnameTypeReceptor
				if mode == "dns" {
					ht = netceptor.ExpectedHostnameTypeDNS
				}
				cl, err := n.GetClientTLSConfig("c", c09Expected, ht)
				if err != nil {
					out.violate("tls:getclientconfig", "GetClientTLSConfig: %v", err)
					continue
				}
				ok, cerr, serr := handshake(cl, srv)
				want, cond := c09RefAccept(spec, pin, "server", mode)
				out.count("handshakes", 1)
				if want {
					accepted++
				}
				if want && !ok {
					out.violate("tls:handshake:rejected-good:server:"+mode, "server cert %+v pins=%s mode=%s: all conditions hold but the handshake fails: client=%v server=%v", spec, pin, mode, cerr, serr)
				}
				if !want && ok {
					out.violate("tls:handshake:accepted-bad:"+cond+":server:"+mode, "server cert %+v pins=%s mode=%s: condition %q fails but the handshake succeeds", spec, pin, mode, cond)
				}
			}
		}
		// (b) we are the server (backend listener / control service): the leaf is the client's certificate
		scfg := netceptor.TLSServerConfig{Name: "s", Cert: goodCert, Key: goodKey, RequireClientCert: true, ClientCAs: p.caFile, PinnedClientCert: hexPins(pl), SkipReceptorNamesCheck: true}
		sv, err := scfg.PrepareTLSServerConfig(n)
		if err != nil {
			if pin != "wronglen" && pin != "sha224-hit" && pin != "sha384-hit" {
				out.violate("tls:server-config-refused:"+pin, "PrepareTLSServerConfig refused pins %s: %v", pin, err)
			}
			continue
		}
		cl := &tls.Config{Certificates: []tls.Certificate{{Certificate: [][]byte{leaf.der}, PrivateKey: leaf.key}}, RootCAs: p.pool, ServerName: c09Expected, MinVersion: tls.VersionTLS12}
		ok, cerr, serr := handshake(cl, sv)
		want, cond := c09RefAccept(spec, pin, "client", "noname")
		out.count("handshakes", 1)
		if want {
			accepted++
		}
		if want && !ok {
			out.violate("tls:handshake:rejected-good:client", "client cert %+v pins=%s: all conditions hold but the handshake fails: client=%v server=%v", spec, pin, cerr, serr)
		}
		if !want && ok {
			out.violate("tls:handshake:accepted-bad:"+cond+":client", "client cert %+v pins=%s: condition %q fails but the handshake succeeds", spec, pin, cond)
		}
	}
	// no client certificate at all against a server that requires one
	scfg := netceptor.TLSServerConfig{Name: "s", Cert: goodCert, Key: goodKey, RequireClientCert: true, ClientCAs: p.caFile, SkipReceptorNamesCheck: true}
	if sv, err := scfg.PrepareTLSServerConfig(n); err == nil {
		cl := &tls.Config{RootCAs: p.pool, ServerName: c09Expected, MinVersion: tls.VersionTLS12}
		if ok, _, _ := handshake(cl, sv); ok {
			out.violate("tls:handshake:accepted-bad:no-client-cert", "handshake without a client certificate succeeds against RequireClientCert")
		}
	}
	_ = leafCert
	_ = leafKey
	out.Outcome = fmt.Sprintf("L2 accepted=%d", accepted)
	return out
}

type nopWriter struct{}

func (nopWriter) Write(p []byte) (int, error) { return len(p), nil }

func init() {
	register(&PropSpec{
		ID:        "C09",
		Level:     "exploration",
		Technique: "exhaustive enumeration of the certificate x pin x role x name-mode product against the statement's conjunction: ReceptorVerifyFunc directly, real crypto/tls handshakes with the configs built by PrepareTLS*Config/GetClientTLSConfig, and a mutually authenticated stream listener between real nodes in a synctest bubble",
		Rule: "certificates = {trusted, other CA, self-signed} x {valid, expired, not yet} x {server, client, both, absent, other EKU} x 8 name sets (expected ID, other, several incl/excl, none, DNS-only, DNS+ID, prefix/extension/case variants); " +
			"pin lists = 11 kinds (none, sha224/256/384/512 hit, 32/64-byte miss, wrong length, miss-then-hit, hit-then-miss, two misses); roles server/client; name modes receptor/DNS/none. Level 1: all 360 x 66 decisions. Level 2: TLS handshakes (quick: certificates with at most one failing chain condition). Sequences: one long-lived verification function / listener configuration / dialer configuration judging every sequence of <=3 certificates from {pinned, trusted but not pinned, expired, other CA} for 7 pin lists, each verdict compared with a fresh configuration's. Level 3: a stream listener requiring client certificates between two real nodes (QUIC in a bubble, one process per case): dialer IDs {plain, n:1, a:b:c, with space} x client certificate naming {own ID, another ID, none, the part before the first colon, both} x issuer {trusted, other}. Every case is non-trivial (a real certificate is built and judged).",
		Assumptions: []string{"absent EKU = unrestricted (RFC 5280)", "ECDSA P-256 leaf keys; x509 path building of Go's standard library is trusted"},
		Run:         runC09,
		Exec:        execC09,
		Coord:       coordC09,
		OneShot:     true,
		CaseTimeout: 120 * time.Second,
	})
}
