// Package harness is the model-checking machinery for ansible/receptor (see /verif/DESIGN.md).
// It is built as a test binary (testing/synctest needs *testing.T) from /repo's working tree:
//
//	go1.26.8 test -c -tags verif -vet=off -o harness.test .
//
// and run through /verif/vcheck, which starts the coordinator (TestCoordinator); the coordinator
// starts worker processes of the same binary (TestWorker) that execute the real receptor code.
package harness
