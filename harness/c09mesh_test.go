package harness

import (
	"crypto/tls"
	"crypto/x509"
	"encoding/json"
	"fmt"
	"io"
	"sync"
	"testing"
	"time"

	"github.com/ansible/receptor/pkg/netceptor"
)

// C09 level 3 — a mutually authenticated stream listener between real nodes: the client certificate
// must name the node the packets claim to come from.

type c09MeshCase struct {
	DialerID string // node ID of the dialing node
	CertFor  string // node ID(s) named in the client certificate: "own", "other", "none", "prefix" (the part of the ID before ':'), "both"
	Issuer   string // trusted | other
}

func (c c09MeshCase) String() string {
	return fmt.Sprintf("dialer=%q cert=%s issuer=%s", c.DialerID, c.CertFor, c.Issuer)
}

func (p *c09PKI) leafFor(ids []string, issuer string) c09Cert {
	// reuse make() with a custom name list: build through the same template path
	spec := c09CertSpec{Issuer: issuer, Validity: "valid", EKU: "both", Names: "custom"}
	return p.makeCustom(spec, ids)
}

func runC09Mesh(t *testing.T, c c09MeshCase, early chan CaseOut) {
	var out CaseOut
	out.Nontrivial = true
	defer func() {
		select {
		case early <- out:
		default:
		}
	}()
	p := c09Setup()
	bubble(t, func(t *testing.T) {
		m := newMesh(defaultConsts, c.DialerID, "srv")
		m.latency = 2 * time.Millisecond
		m.up(c.DialerID, "srv", 1)
		time.Sleep(2 * time.Second)
		m.wait()
		// server: certificate for "srv", requires and verifies client certificates
		srvLeaf := p.leafFor([]string{"srv"}, "trusted")
		srvCfg := &tls.Config{
			Certificates: []tls.Certificate{{Certificate: [][]byte{srvLeaf.der}, PrivateKey: srvLeaf.key}},
			ClientAuth:   tls.RequireAndVerifyClientCert,
			ClientCAs:    p.pool,
			MinVersion:   tls.VersionTLS12,
		}
		li, err := m.nodes["srv"].Listen("secure", srvCfg)
		if err != nil {
			out.violate("harness:c09-listen", "%v", err)
			return
		}
		accepted := make(chan string, 1)
		go func() {
			conn, err := li.Accept()
			if err != nil {
				accepted <- "accept-error: " + err.Error()
				return
			}
			buf := make([]byte, 8)
			n, _ := conn.Read(buf)
			accepted <- "accepted:" + string(buf[:n])
		}()
		var ids []string
		switch c.CertFor {
		case "own":
			ids = []string{c.DialerID}
		case "other":
			ids = []string{"somebody-else"}
		case "none":
			ids = nil
		case "prefix":
			ids = []string{prefixOfID(c.DialerID)}
		case "both":
			ids = []string{"somebody-else", c.DialerID}
		}
		leaf := p.leafFor(ids, c.Issuer)
		cliBase := &tls.Config{
			Certificates: []tls.Certificate{{Certificate: [][]byte{leaf.der}, PrivateKey: leaf.key}},
			RootCAs:      p.pool,
			MinVersion:   tls.VersionTLS12,
		}
		n := m.nodes[c.DialerID]
		n.SetClientTLSConfig("cli", cliBase, nil)
		cliCfg, err := n.GetClientTLSConfig("cli", "srv", netceptor.ExpectedHostnameTypeReceptor)
		if err != nil {
			out.violate("harness:c09-clientcfg", "%v", err)
			return
		}
		dialed := make(chan error, 1)
		go func() {
			conn, err := n.Dial("srv", "secure", cliCfg)
			if err == nil {
				conn.Write([]byte("hello"))
				// TLS 1.3: the server's verdict on the client certificate arrives after the handshake returned
				conn.SetReadDeadline(time.Now().Add(5 * time.Second))
				_, rerr := conn.Read(make([]byte, 1))
				if rerr != nil && rerr != io.EOF && !isTimeout(rerr) {
					err = rerr
				}
			}
			dialed <- err
		}()
		var derr error
		select {
		case derr = <-dialed:
		case <-time.After(60 * time.Second):
			derr = fmt.Errorf("dial did not return in 60 virtual seconds")
		}
		res := ""
		select {
		case res = <-accepted:
		case <-time.After(20 * time.Second):
			res = "nothing-accepted"
		}
		established := res == "accepted:hello"
		want := c.Issuer == "trusted" && (c.CertFor == "own" || c.CertFor == "both")
		ctx := c.String()
		if established && !want {
			cond := "name"
			if c.Issuer != "trusted" {
				cond = "issuer"
			}
			cls := "plain-id"
			if prefixOfID(c.DialerID) != c.DialerID {
				cls = "id-with-colon"
			}
			out.violate("tls:stream:accepted-bad:"+cond+":"+cls, "%s: the listener accepted the stream although the client certificate does not name the dialing node (names %v)", ctx, ids)
		}
		if !established && want {
			cls := "plain-id"
			if prefixOfID(c.DialerID) != c.DialerID {
				cls = "id-with-colon"
			}
			out.violate("tls:stream:rejected-good:"+cls, "%s: all conditions hold but no stream was established (server: %s, dial: %v)", ctx, res, derr)
		}
		out.Outcome = fmt.Sprintf("L3 want=%v established=%v", want, established)
		out.Sample = map[string]any{"case": ctx, "server": res, "dial_error": fmt.Sprint(derr)}
		early <- out
	})
}

func isTimeout(err error) bool {
	type to interface{ Timeout() bool }
	if t, ok := err.(to); ok {
		return t.Timeout()
	}
	return false
}

func prefixOfID(id string) string {
	for i := 0; i < len(id); i++ {
		if id[i] == ':' {
			return id[:i]
		}
	}
	return id
}

func execC09(w *W, raw json.RawMessage) CaseOut {
	var c c09MeshCase
	json.Unmarshal(raw, &c)
	res := make(chan CaseOut, 2)
	go func() {
		defer func() { recover() }()
		runC09Mesh(w.T, c, res)
	}()
	select {
	case o := <-res:
		return o
	case <-time.After(80 * time.Second):
		return CaseOut{Viol: []Violation{{Key: "hang:c09-mesh", Msg: "no progress for 80 s: " + c.String()}}}
	}
}

func coordC09(c *Coord) {
	c.runShards()
	if c.stopped() {
		return
	}
	p := c.newPool()
	defer p.close()
	var wg sync.WaitGroup
	for _, id := range []string{"cli", "n:1", "a:b:c", "node with space"} {
		for _, certFor := range []string{"own", "other", "none", "prefix", "both"} {
			for _, issuer := range []string{"trusted", "other"} {
				if certFor == "prefix" && prefixOfID(id) == id {
					continue
				}
				if issuer == "other" && certFor != "own" {
					continue
				}
				cs := c09MeshCase{id, certFor, issuer}
				wg.Add(1)
				go func() {
					defer wg.Done()
					r := p.exec(cs)
					raw, _ := json.Marshal(cs)
					c.record("L3 "+cs.String(), raw, r.Out)
				}()
			}
		}
	}
	wg.Wait()
}

var _ = x509.NewCertPool
