package harness

import (
	"context"
	"encoding/binary"
	"encoding/json"
	"fmt"
	"io"
	"math"
	"sort"
	"strings"
	"sync"
	"testing/synctest"
	"time"

	"github.com/ansible/receptor/pkg/logger"
	"github.com/ansible/receptor/pkg/netceptor"
	"github.com/minio/highwayhash"
)

// meshx: real Netceptor objects in a synctest bubble, connected by harness-owned links.
// Nothing moves on a link unless the explorer delivers it (manual mode), or — for scenarios that
// carry QUIC — after a fixed virtual latency (auto mode).

// ---- wire helpers --------------------------------------------------------------------------------

type wireRoute struct {
	NodeID             string
	UpdateID           string
	UpdateEpoch        uint64
	UpdateSequence     uint64
	Connections        map[string]float64
	ForwardingNode     string
	SuspectedDuplicate uint64
}

type wireAd struct {
	NodeID       string
	Service      string
	Time         time.Time
	ConnType     byte
	Tags         map[string]string
	WorkCommands []netceptor.WorkCommand
	Cancel       bool
}

func nameHash(name string) uint64 {
	h, _ := highwayhash.New64(make([]byte, 32))
	h.Write([]byte(name))
	return h.Sum64()
}

func mkRoute(r wireRoute) []byte {
	b, _ := json.Marshal(r)
	return append([]byte{1}, b...)
}

func mkData(ttl byte, fromNode, toNode, fromSvc, toSvc string, payload []byte) []byte {
	buf := make([]byte, 36+len(payload))
	buf[0] = 0
	buf[1] = ttl
	binary.BigEndian.PutUint64(buf[4:12], nameHash(fromNode))
	binary.BigEndian.PutUint64(buf[12:20], nameHash(toNode))
	copy(buf[20:28], fromSvc)
	copy(buf[28:36], toSvc)
	copy(buf[36:], payload)
	return buf
}

type dataHdr struct {
	TTL              byte
	FromHash, ToHash uint64
	FromSvc, ToSvc   string
	Payload          []byte
}

func parseData(m []byte) (dataHdr, bool) {
	if len(m) < 36 || m[0] != 0 {
		return dataHdr{}, false
	}
	return dataHdr{TTL: m[1], FromHash: binary.BigEndian.Uint64(m[4:12]), ToHash: binary.BigEndian.Uint64(m[12:20]),
		FromSvc: strings.TrimRight(string(m[20:28]), "\x00"), ToSvc: strings.TrimRight(string(m[28:36]), "\x00"), Payload: m[36:]}, true
}

// ---- links -------------------------------------------------------------------------------------------

type memBackend struct{ ch chan netceptor.BackendSession }

func newMemBackend() *memBackend { return &memBackend{ch: make(chan netceptor.BackendSession)} }
func (b *memBackend) Start(ctx context.Context, wg *sync.WaitGroup) (chan netceptor.BackendSession, error) {
	return b.ch, nil
}

type qmsg struct {
	data    []byte
	batch   int
	counted bool
}

// hSess is one end of a harness-owned link; it SENDS in direction from>to.
type hSess struct {
	m        *mesh
	from, to string
	mu       sync.Mutex
	outbox   []qmsg
	in       chan []byte
	closed   chan struct{}
	once     sync.Once
	peer     *hSess
	sent     int
	filter   func(n int, data []byte) (drop bool, dup bool, extra time.Duration) // auto mode fault injection
	tap      func(data []byte)                                                   // observes every datagram sent on this end
	stall    chan struct{}                                                       // non-nil: Send blocks until it is closed (back-pressure of a stream backend)
}

func (s *hSess) name() string { return s.from + ">" + s.to }

func (s *hSess) Send(d []byte) error {
	select {
	case <-s.closed:
		return io.ErrClosedPipe
	default:
	}
	if st := s.stall; st != nil {
		select {
		case <-st:
		case <-s.closed:
			return io.ErrClosedPipe
		}
	}
	cp := append([]byte(nil), d...)
	if s.tap != nil {
		s.tap(cp)
	}
	if s.m.latency > 0 {
		s.mu.Lock()
		n := s.sent
		s.sent++
		s.mu.Unlock()
		delay := s.m.latency
		copies := 1
		if s.m.isSilent(s.from, s.to) {
			return nil
		}
		if s.filter != nil {
			drop, dup, extra := s.filter(n, cp)
			if drop {
				return nil
			}
			if dup {
				copies = 2
			}
			delay += extra
		}
		for i := 0; i < copies; i++ {
			go func() {
				time.Sleep(delay)
				select {
				case s.peer.in <- cp:
				case <-s.peer.closed:
				}
			}()
		}
		return nil
	}
	s.mu.Lock()
	s.outbox = append(s.outbox, qmsg{data: cp, batch: s.m.step})
	s.sent++
	s.mu.Unlock()
	if s.m.logEmit {
		s.m.mu.Lock()
		if s.m.emitted == nil {
			s.m.emitted = map[string][][]byte{}
		}
		s.m.emitted[s.name()] = append(s.m.emitted[s.name()], cp)
		s.m.mu.Unlock()
	}
	return nil
}

func (s *hSess) Recv(time.Duration) ([]byte, error) {
	select {
	case d := <-s.in:
		return d, nil
	case <-s.closed:
		return nil, io.EOF
	}
}

// Close ends the session; as with a stream socket the other end sees end-of-stream.
func (s *hSess) Close() error {
	s.once.Do(func() { close(s.closed) })
	s.peer.once.Do(func() { close(s.peer.closed) })
	return nil
}

func (s *hSess) isClosed() bool {
	select {
	case <-s.closed:
		return true
	default:
		return false
	}
}

func (s *hSess) pending() int {
	s.mu.Lock()
	defer s.mu.Unlock()
	return len(s.outbox)
}

// take removes message i of the outbox.
func (s *hSess) take(i int) []byte {
	s.mu.Lock()
	defer s.mu.Unlock()
	m := s.outbox[i].data
	s.outbox = append(s.outbox[:i:i], s.outbox[i+1:]...)
	return m
}

// inject hands raw bytes to the peer of this end (as if sent by this end).
func (s *hSess) inject(data []byte) {
	select {
	case s.peer.in <- data:
	case <-s.peer.closed:
	}
}

// ---- mesh -------------------------------------------------------------------------------------------

type meshConsts struct {
	mtu        int
	routeTime  time.Duration
	adTime     time.Duration
	seenExpire time.Duration
	maxHops    byte
	idle       time.Duration
}

var defaultConsts = meshConsts{16384, 10 * time.Second, 60 * time.Second, time.Hour, 30, 21 * time.Second}

type mesh struct {
	names    []string
	consts   meshConsts
	nodes    map[string]*netceptor.Netceptor
	alive    map[string]bool
	sess     map[string]*hSess // "x>y"
	cost     map[string]float64
	silent   map[string]bool
	realtime bool          // not in a synctest bubble
	latency  time.Duration // >0: auto delivery mode
	step     int           // macro-step counter (batch id)
	t0       time.Time
	// canonicalisation
	updIDs   map[string]string
	epochs   map[string][]uint64 // node -> epochs in order of first appearance
	mu       sync.Mutex
	emitted  map[string][][]byte // every datagram ever sent on a link, in order (when logEmitted is set)
	logEmit  bool
	idOf     map[string]string   // mesh name -> node ID when they differ (same-ID twins)
	scripted map[string]bool     // names that are scripted peers (no real node)
	recvd    map[string][][]byte // what each scripted peer has received (delivered messages)
}

// logYield turns selected log statements of the code under test into yield points: the logging goroutine
// sleeps one virtual millisecond there, so that another goroutine (the handler of a message that arrives
// on another link at the same moment) runs through the same code in the meantime. Only statements that
// are issued outside of any lock are used (a sleeper that holds a mutex would freeze the bubble).
func logYield(on bool) {
	if !on {
		logger.RegisterLogger(nil)
		return
	}
	logger.RegisterLogger(func(level int, format string, v ...interface{}) {
		for _, p := range []string{"Received routing update", "Node %s with epoch %d sent update", "Received service advertisement from"} {
			if strings.HasPrefix(format, p) {
				time.Sleep(time.Millisecond)
				return
			}
		}
	})
}

// wait: quiescence in a bubble; a short real pause when the mesh runs in real time (QUIC loss recovery).
func (m *mesh) wait() {
	if m.realtime {
		time.Sleep(15 * time.Millisecond)
		return
	}
	synctest.Wait()
}

func lk(x, y string) string {
	if x > y {
		x, y = y, x
	}
	return x + "-" + y
}

func newMesh(consts meshConsts, names ...string) *mesh {
	m := &mesh{names: names, consts: consts, nodes: map[string]*netceptor.Netceptor{}, alive: map[string]bool{}, sess: map[string]*hSess{},
		cost: map[string]float64{}, silent: map[string]bool{}, updIDs: map[string]string{}, epochs: map[string][]uint64{}, scripted: map[string]bool{}, t0: time.Now()}
	for _, n := range names {
		m.start(n)
	}
	return m
}

func (m *mesh) nodeID(n string) string {
	if id, ok := m.idOf[n]; ok {
		return id
	}
	return n
}

func (m *mesh) start(n string) {
	c := m.consts
	nd := netceptor.NewWithConsts(context.Background(), m.nodeID(n), c.mtu, c.routeTime, c.adTime, c.seenExpire, c.maxHops, c.idle)
	nd.Logger.SetOutput(io.Discard)
	m.nodes[n] = nd
	m.alive[n] = true
	found := false
	for _, x := range m.names {
		if x == n {
			found = true
		}
	}
	if !found {
		m.names = append(m.names, n)
	}
}

func (m *mesh) isSilent(x, y string) bool {
	m.mu.Lock()
	defer m.mu.Unlock()
	return m.silent[lk(x, y)]
}

func (m *mesh) pair(x, y string) (*hSess, *hSess) {
	a := &hSess{m: m, from: x, to: y, in: make(chan []byte), closed: make(chan struct{})}
	b := &hSess{m: m, from: y, to: x, in: make(chan []byte), closed: make(chan struct{})}
	if m.latency > 0 {
		a.in = make(chan []byte, 4096)
		b.in = make(chan []byte, 4096)
	}
	a.peer, b.peer = b, a
	m.sess[a.name()], m.sess[b.name()] = a, b
	return a, b
}

// up connects two real nodes with a link of the given cost (configured identically on both ends).
func (m *mesh) up(x, y string, c float64, mods ...func(*netceptor.BackendInfo)) {
	a, b := m.pair(x, y)
	m.cost[lk(x, y)] = c
	m.mu.Lock()
	delete(m.silent, lk(x, y))
	m.mu.Unlock()
	bx, by := newMemBackend(), newMemBackend()
	mx := append([]func(*netceptor.BackendInfo){netceptor.BackendConnectionCost(c)}, mods...)
	m.nodes[x].AddBackend(bx, mx...)
	m.nodes[y].AddBackend(by, mx...)
	bx.ch <- a
	by.ch <- b
	m.wait()
}

// attach connects a scripted peer (no real node) named peer to real node x and returns the
// peer's end: what x sends shows up in m.sess[x>peer].outbox; the script injects through the returned end.
func (m *mesh) attach(x, peer string, mods ...func(*netceptor.BackendInfo)) *hSess {
	a, b := m.pair(x, peer)
	m.scripted[peer] = true
	bx := newMemBackend()
	m.nodes[x].AddBackend(bx, mods...)
	bx.ch <- a
	m.wait()
	return b
}

func (m *mesh) down(x, y string) {
	if s := m.sess[x+">"+y]; s != nil {
		s.Close()
	}
	delete(m.sess, x+">"+y)
	delete(m.sess, y+">"+x)
	delete(m.cost, lk(x, y))
	m.mu.Lock()
	delete(m.silent, lk(x, y))
	m.mu.Unlock()
	m.wait()
}

func (m *mesh) setSilent(x, y string) {
	m.mu.Lock()
	m.silent[lk(x, y)] = true
	m.mu.Unlock()
	// traffic already queued is lost too
	for _, k := range []string{x + ">" + y, y + ">" + x} {
		if s := m.sess[k]; s != nil {
			s.mu.Lock()
			s.outbox = nil
			s.mu.Unlock()
		}
	}
}

func (m *mesh) stop(x string) {
	m.nodes[x].Shutdown()
	m.alive[x] = false
	m.wait()
	for _, y := range m.names {
		if _, ok := m.cost[lk(x, y)]; ok && y != x {
			m.down(x, y)
		}
	}
	m.wait()
}

func (m *mesh) restart(x string) {
	time.Sleep(1100 * time.Millisecond) // start epochs have one-second granularity
	m.start(x)
	m.wait()
}

func (m *mesh) sortedLinks() []string {
	keys := make([]string, 0, len(m.sess))
	for k := range m.sess {
		keys = append(keys, k)
	}
	sort.Strings(keys)
	return keys
}

func (m *mesh) inflight() int {
	n := 0
	for _, s := range m.sess {
		n += s.pending()
	}
	return n
}

// deliverAt hands message i of link k to its receiver and waits for quiescence.
func (m *mesh) deliverAt(k string, i int) {
	s := m.sess[k]
	if s == nil {
		return
	}
	d := s.take(i)
	m.step++
	if m.isSilent(s.from, s.to) || s.isClosed() {
		return
	}
	if m.scripted[s.to] {
		if m.recvd == nil {
			m.recvd = map[string][][]byte{}
		}
		m.recvd[s.to] = append(m.recvd[s.to], d)
		return
	}
	s.inject(d)
	m.wait()
}

// flush delivers everything in flight in canonical order (link name, FIFO) until nothing is left.
func (m *mesh) flush() int {
	total := 0
	for round := 0; round < 500; round++ {
		any := false
		for _, k := range m.sortedLinks() {
			s := m.sess[k]
			for s != nil && s.pending() > 0 {
				any = true
				total++
				m.deliverAt(k, 0)
				if total > 20000 {
					return total
				}
			}
		}
		if !any {
			break
		}
	}
	return total
}

func (m *mesh) tick(d time.Duration) {
	time.Sleep(d)
	m.step++
	m.wait()
}

// settle: deliver all, tick, until no message is in flight after a tick.
func (m *mesh) settle() int {
	total := 0
	for i := 0; i < 200; i++ {
		n := m.flush()
		total += n
		m.tick(150 * time.Millisecond)
		if n == 0 && m.inflight() == 0 {
			return total
		}
	}
	return total
}

// closure: fair delivery followed by `periods` route-update periods with deliveries in between
// (a single long jump without deliveries would make every link look idle).
func (m *mesh) closure(periods int) {
	m.settle()
	for i := 0; i < periods; i++ {
		for j := 0; j < 4; j++ { // 2.5 s steps so that the 5 s idle monitor and deliveries interleave
			m.tick(m.consts.routeTime / 4)
			m.flush()
		}
		m.settle()
	}
}

func (m *mesh) end() {
	for _, n := range m.nodes {
		n.Shutdown()
	}
	for _, s := range m.sess {
		s.Close()
	}
	time.Sleep(30 * time.Second)
	m.wait()
}

// ---- ground truth and the C01 oracle --------------------------------------------------------------------

func (m *mesh) adj(x, y string) (float64, bool) {
	c, ok := m.cost[lk(x, y)]
	if !ok || m.silent[lk(x, y)] || !m.alive[x] || !m.alive[y] || x == y {
		return 0, false
	}
	return c, true
}

func (m *mesh) dist() map[string]map[string]float64 {
	dist := map[string]map[string]float64{}
	for _, x := range m.names {
		dist[x] = map[string]float64{}
		for _, y := range m.names {
			dist[x][y] = math.Inf(1)
		}
		dist[x][x] = 0
	}
	for _, x := range m.names {
		for _, y := range m.names {
			if c, ok := m.adj(x, y); ok {
				dist[x][y] = c
			}
		}
	}
	for _, k := range m.names {
		for _, i := range m.names {
			for _, j := range m.names {
				if dist[i][k]+dist[k][j] < dist[i][j] {
					dist[i][j] = dist[i][k] + dist[k][j]
				}
			}
		}
	}
	return dist
}

// checkRouting compares every live node's routing table and path costs with Floyd–Warshall on the
// ground-truth topology. Violations are appended to out with keys naming the kind of disagreement.
func (m *mesh) checkRouting(out *CaseOut, ctx string) {
	dist := m.dist()
	for _, x := range m.names {
		if !m.alive[x] || m.scripted[x] {
			continue
		}
		st := m.nodes[x].Status()
		for y := range st.RoutingTable {
			known := false
			for _, n := range m.names {
				if n == y {
					known = true
				}
			}
			if !known {
				out.violate("route:unknown-node", "%s: %s has a route to %q which is not a node", ctx, x, y)
			}
		}
		for _, y := range m.names {
			if y == x {
				continue
			}
			nh, has := st.RoutingTable[y]
			reach := !math.IsInf(dist[x][y], 1)
			if has && !reach {
				out.violate("route:stale", "%s: %s still routes to unreachable %s via %s (known=%v)", ctx, x, y, nh, st.KnownConnectionCosts)
				continue
			}
			if !has && reach {
				out.violate("route:missing", "%s: %s has no route to reachable %s (dist %v, table=%v known=%v)", ctx, x, y, dist[x][y], st.RoutingTable, st.KnownConnectionCosts)
				continue
			}
			if !reach {
				// PathCost keeps a MaxFloat64 entry for known but unreachable nodes; only a finite cost is wrong
				if pc, err := m.nodes[x].PathCost(y); err == nil && pc < math.MaxFloat64/2 {
					out.violate("route:stale-cost", "%s: %s reports path cost %v to unreachable %s", ctx, x, pc, y)
				}
				continue
			}
			c, isN := m.adj(x, nh)
			if !isN {
				out.violate("route:nexthop-not-neighbour", "%s: %s routes to %s via %s which is not a live neighbour", ctx, x, y, nh)
				continue
			}
			if math.Abs(c+dist[nh][y]-dist[x][y]) > 1e-9 {
				out.violate("route:not-least-cost", "%s: %s routes to %s via %s (cost %v+%v) but least cost is %v", ctx, x, y, nh, c, dist[nh][y], dist[x][y])
			}
			pc, err := m.nodes[x].PathCost(y)
			if err != nil || math.Abs(pc-dist[x][y]) > 1e-9 {
				out.violate("route:pathcost", "%s: %s PathCost(%s)=%v,%v want %v", ctx, x, y, pc, err, dist[x][y])
			}
			// follow next hops: must reach y without repeating a node
			seen := map[string]bool{x: true}
			cur := x
			for cur != y {
				nxt, ok := m.nodes[cur].Status().RoutingTable[y]
				if !ok {
					out.violate("route:walk-broken", "%s: walking from %s to %s stops at %s", ctx, x, y, cur)
					break
				}
				if seen[nxt] {
					out.violate("route:loop", "%s: walking from %s to %s revisits %s", ctx, x, y, nxt)
					break
				}
				seen[nxt] = true
				cur = nxt
			}
		}
	}
}

// checkConnsSubset: in every quiescent state a node's connection list only names peers with a live session.
func (m *mesh) checkConnsSubset(out *CaseOut, ctx string) {
	for _, x := range m.names {
		if !m.alive[x] || m.scripted[x] {
			continue
		}
		for _, c := range m.nodes[x].Status().Connections {
			s := m.sess[x+">"+c.NodeID]
			if s == nil || s.isClosed() {
				out.violate("conn:without-session", "%s: %s lists a connection to %s but no session exists", ctx, x, c.NodeID)
			}
		}
	}
}

// ---- canonical forms -----------------------------------------------------------------------------------

func (m *mesh) epochIndex(node string, e uint64) int {
	for i, v := range m.epochs[node] {
		if v == e {
			return i
		}
	}
	m.epochs[node] = append(m.epochs[node], e)
	return len(m.epochs[node]) - 1
}

func fmtConns(c map[string]float64) string {
	ks := make([]string, 0, len(c))
	for k := range c {
		ks = append(ks, k)
	}
	sort.Strings(ks)
	var sb strings.Builder
	for _, k := range ks {
		fmt.Fprintf(&sb, "%s:%g,", k, c[k])
	}
	return sb.String()
}

// canonMsg renders a message with random fields replaced by stable names.
func (m *mesh) canonMsg(d []byte) string {
	if len(d) == 0 {
		return "EMPTY"
	}
	switch d[0] {
	case 1:
		var r wireRoute
		if json.Unmarshal(d[1:], &r) != nil {
			return fmt.Sprintf("R?%x", d)
		}
		e := m.epochIndex(r.NodeID, r.UpdateEpoch)
		sd := ""
		if r.SuspectedDuplicate != 0 {
			sd = fmt.Sprintf(" dup=e%d", m.epochIndex(r.NodeID, r.SuspectedDuplicate))
		}
		return fmt.Sprintf("R %s e%d #%d fwd=%s {%s}%s", r.NodeID, e, r.UpdateSequence, r.ForwardingNode, fmtConns(r.Connections), sd)
	case 2:
		var a wireAd
		if json.Unmarshal(d[1:], &a) != nil {
			return fmt.Sprintf("A?%x", d)
		}
		c := "ad"
		if a.Cancel {
			c = "cancel"
		}
		return fmt.Sprintf("A %s %s:%s t=%d", c, a.NodeID, a.Service, a.Time.Sub(m.t0).Milliseconds())
	case 0:
		h, ok := parseData(d)
		if !ok {
			return fmt.Sprintf("D?%x", d)
		}
		return fmt.Sprintf("D ttl=%d %x>%x %s>%s len=%d", h.TTL, h.FromHash&0xffff, h.ToHash&0xffff, h.FromSvc, h.ToSvc, len(h.Payload))
	case 3:
		return "REJECT"
	}
	return fmt.Sprintf("?%x", d)
}

func (m *mesh) nodeState(x string) string {
	if !m.alive[x] {
		return x + ":down"
	}
	st := m.nodes[x].Status()
	cs := []string{}
	for _, c := range st.Connections {
		cs = append(cs, fmt.Sprintf("%s:%g", c.NodeID, c.Cost))
	}
	sort.Strings(cs)
	ks := make([]string, 0)
	for k, v := range st.KnownConnectionCosts {
		ks = append(ks, k+"{"+fmtConns(v)+"}")
	}
	sort.Strings(ks)
	return fmt.Sprintf("%s conns=%v known=%v", x, cs, ks)
}

func (m *mesh) linkState(k string) string {
	s := m.sess[k]
	s.mu.Lock()
	defer s.mu.Unlock()
	var items []string
	for _, q := range s.outbox {
		items = append(items, m.canonMsg(q.data))
	}
	return k + "[" + strings.Join(items, " | ") + "]"
}
