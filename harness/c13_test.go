package harness

import (
	"context"
	"encoding/json"
	"fmt"
	"io"
	"os"
	"os/exec"
	"path/filepath"
	"sort"
	"strconv"
	"strings"
	"sync"
	"syscall"
	"time"

	"github.com/ansible/receptor/pkg/netceptor"
	"github.com/ansible/receptor/pkg/randstr"
	"github.com/ansible/receptor/pkg/workceptor"
)

// C13 — work units only move forward; release removes them; unit IDs are unique.

func stageOf(state int) int {
	switch state {
	case 0:
		return 0
	case 1:
		return 1
	}
	return 2
}

// checkObsLog: every status rewrite of every process, per status file, must move forward.
func checkObsLog(out *CaseOut, recs [][]string, ctx string) int {
	type rec struct {
		ts               int64
		role             string
		oldS, newS       int
		oldSize, newSize int64
	}
	byFile := map[string][]rec{}
	for _, r := range recs {
		if len(r) < 9 || r[3] != "status" {
			continue
		}
		ts, _ := strconv.ParseInt(r[0], 10, 64)
		os_, _ := strconv.Atoi(r[5])
		osz, _ := strconv.ParseInt(r[6], 10, 64)
		ns, _ := strconv.Atoi(r[7])
		nsz, _ := strconv.ParseInt(r[8], 10, 64)
		byFile[r[4]] = append(byFile[r[4]], rec{ts, r[1], os_, ns, osz, nsz})
	}
	n := 0
	for f, rs := range byFile {
		sort.SliceStable(rs, func(i, j int) bool { return rs[i].ts < rs[j].ts })
		for _, r := range rs {
			n++
			// each record is a read-modify-write under the lock: old is what was stored, new what replaces it
			if stageOf(r.newS) < stageOf(r.oldS) {
				out.violate(fmt.Sprintf("unit:state-went-back:%d->%d:%s", r.oldS, r.newS, r.role), "%s: %s rewrote %s from state %d to state %d", ctx, r.role, filepath.Base(filepath.Dir(f)), r.oldS, r.newS)
			}
			if r.oldS == 2 && (r.newS != 2 || r.newSize != r.oldSize) {
				out.violate(fmt.Sprintf("unit:succeeded-not-final:->%d:%s", r.newS, r.role), "%s: %s rewrote a Succeeded record (size %d) to state %d size %d", ctx, r.role, r.oldSize, r.newS, r.newSize)
			}
			if r.oldS >= 1 && r.newSize < r.oldSize {
				out.violate("unit:output-size-shrank:"+r.role, "%s: %s shrank the recorded output size %d -> %d (state %d -> %d)", ctx, r.role, r.oldSize, r.newSize, r.oldS, r.newS)
			}
		}
	}
	return n
}

type c13Seq struct {
	Unit string   // cat | fail | long | remote
	Ops  []string // status list cancel release force-release results
}

func pidAlive(pid int) bool {
	if pid <= 0 {
		return false
	}
	if err := syscall.Kill(pid, 0); err != nil {
		return false
	}
	// a zombie still answers signal 0
	b, err := os.ReadFile(fmt.Sprintf("/proc/%d/stat", pid))
	if err != nil {
		return false
	}
	f := strings.Fields(string(b))
	return len(f) > 2 && f[2] != "Z"
}

func runC13Seq(sc c13Seq) CaseOut {
	var out CaseOut
	out.Nontrivial = true
	dir, err := os.MkdirTemp(scratchDir(), "c13-")
	if err != nil {
		out.violate("harness:c13-tmp", "%v", err)
		return out
	}
	defer os.RemoveAll(dir)
	obs := filepath.Join(dir, "obs.log")
	d, err := startDaemon(dir, "n1", []string{"VERIF_OBS_LOG=" + obs})
	if err != nil {
		out.violate("harness:c13-daemon", "%v", err)
		if d != nil {
			d.kill()
		}
		return out
	}
	defer func() {
		d.kill()
		killStrayRunners(dir)
	}()
	ctx := fmt.Sprintf("unit=%s ops=%v", sc.Unit, sc.Ops)
	node, wt := "n1", sc.Unit
	if sc.Unit == "remote" {
		node, wt = "faraway", "cat"
	}
	sub := d.submit(node, wt, []byte("hello\n"), 15*time.Second)
	if sub.ID == "" {
		out.violate("harness:c13-submit", "%s: submit failed: %+v", ctx, sub)
		return out
	}
	id := sub.ID
	unitDir := filepath.Join(dir, "data", "n1", id)
	switch sc.Unit {
	case "cat":
		if _, err := d.waitState(id, 15*time.Second, 2); err != nil {
			out.violate("harness:c13-wait", "%s: %v", ctx, err)
			return out
		}
	case "fail":
		if _, err := d.waitState(id, 15*time.Second, 3); err != nil {
			out.violate("harness:c13-wait", "%s: %v", ctx, err)
			return out
		}
	case "long":
		if _, err := d.waitState(id, 15*time.Second, 1); err != nil {
			out.violate("harness:c13-wait", "%s: %v", ctx, err)
			return out
		}
	}
	time.Sleep(300 * time.Millisecond)
	// the command's pid (the runner's child) for the "cancel stops the process" check
	var procs []int
	if sc.Unit == "long" {
		if st, _, _ := d.status(id, 5*time.Second); st != nil {
			if strings.HasPrefix(st.Detail, "Running: PID ") {
				p, _ := strconv.Atoi(strings.TrimPrefix(st.Detail, "Running: PID "))
				procs = append(procs, p)
			}
		}
	}
	released := false
	lastStage := -1
	var succeededSize int64 = -1
	seenState := func(st *unitStatus, where string) {
		if st == nil {
			return
		}
		if stageOf(st.State) < lastStage {
			out.violate("unit:reported-state-went-back", "%s: %s reports state %d after a later stage had been reported", ctx, where, st.State)
		}
		lastStage = stageOf(st.State)
		if succeededSize >= 0 && (st.State != 2 || st.StdoutSize != succeededSize) {
			out.violate("unit:reported-succeeded-not-final", "%s: %s reports state %d size %d after Succeeded with size %d", ctx, where, st.State, st.StdoutSize, succeededSize)
		}
		if st.State == 2 {
			succeededSize = st.StdoutSize
		}
	}
	for _, op := range sc.Ops {
		switch op {
		case "status":
			st, raw, err := d.status(id, 10*time.Second)
			if err != nil {
				out.violate("unit:no-answer:status", "%s: %v", ctx, err)
			}
			if released && st != nil {
				out.violate("unit:known-after-release", "%s: status after release answers %s", ctx, trunc(raw, 100))
			}
			seenState(st, "status")
		case "list":
			m, _, err := d.list(10 * time.Second)
			if err != nil {
				out.violate("unit:no-answer:list", "%s: %v", ctx, err)
			}
			if st, ok := m[id]; ok {
				if released {
					out.violate("unit:known-after-release", "%s: list after release still names the unit", ctx)
				}
				seenState(&st, "list")
			}
		case "cancel":
			r, err := d.ask("work cancel "+id, 25*time.Second)
			if err != nil {
				out.violate("unit:no-answer:cancel", "%s: %v", ctx, err)
			}
			if !released && !strings.HasPrefix(r, "ERROR") && sc.Unit == "long" {
				time.Sleep(500 * time.Millisecond)
				for _, p := range procs {
					if pidAlive(p) {
						out.violate("unit:cancel-left-process", "%s: after cancel (%s) the command process %d is still running", ctx, trunc(r, 60), p)
					}
				}
			}
		case "release", "force-release":
			r, err := d.ask("work "+op+" "+id, 25*time.Second)
			if err != nil {
				out.violate("unit:no-answer:release", "%s: %v", ctx, err)
			}
			if strings.Contains(r, "released") && !strings.HasPrefix(r, "ERROR") {
				released = true
				time.Sleep(200 * time.Millisecond)
				if _, err := os.Stat(unitDir); err == nil {
					out.violate("unit:files-left-after-release", "%s: %s answered %q but the unit directory still exists", ctx, op, trunc(r, 60))
				}
				if st, raw, _ := d.status(id, 10*time.Second); st != nil {
					out.violate("unit:known-after-release", "%s: after %s the unit is still known: %s", ctx, op, trunc(raw, 100))
				}
			}
		case "results":
			hdr, data, _ := d.results(id, 0, 1500*time.Millisecond)
			if released && strings.HasPrefix(hdr, "Streaming") {
				out.violate("unit:known-after-release", "%s: results after release streams %d bytes", ctx, len(data))
			}
		}
		time.Sleep(150 * time.Millisecond)
	}
	time.Sleep(400 * time.Millisecond)
	n := checkObsLog(&out, readObsLog(obs), ctx)
	out.count("status_rewrites_observed", n)
	if !d.alive() {
		out.violate("unit:daemon-died", "%s: the daemon exited: %s", ctx, d.logTail())
	}
	out.Outcome = fmt.Sprintf("%s len=%d released=%v", sc.Unit, len(sc.Ops), released)
	return out
}

// ---- (b) concurrent allocation with colliding IDs, under the controlled scheduler -------------------

var (
	c13Once sync.Once
	c13W    *workceptor.Workceptor
)

func c13Env() {
	c13Once.Do(func() {
		n := netceptor.New(context.Background(), "n1")
		n.Logger.SetOutput(io.Discard)
		netceptor.MainInstance = n
		dir, _ := os.MkdirTemp(scratchDir(), "c13alloc-")
		w, err := workceptor.New(context.Background(), n, dir)
		if err != nil {
			panic(err)
		}
		workceptor.MainInstance = w
		w.RegisterWorker("stub", func(_ workceptor.BaseWorkUnitForWorkUnit, w *workceptor.Workceptor, id, wt string) workceptor.WorkUnit {
			u := &scriptedUnit{kind: "hold", env: &ctlEnv{}}
			u.BaseWorkUnit.Init(w, id, wt, workceptor.FileSystem{}, stubWatcher{})
			return u
		}, false)
		c13W = w
	})
}

var c13Round int

func runC13Alloc(threads int, r *xrun) []Violation {
	c13Env()
	var out CaseOut
	c13Round++
	round := c13Round
	// the generator hands out the same identifier to every thread first, then unique ones
	var mu sync.Mutex
	drawn := map[int64]int{}
	fresh := 0
	randstr.SetVerifNext(func(length int) (string, bool) {
		mu.Lock()
		defer mu.Unlock()
		g := goid()
		drawn[g]++
		if drawn[g] == 1 {
			return fmt.Sprintf("c%07d", round), true
		}
		fresh++
		return fmt.Sprintf("f%03d%04d", round%1000, fresh), true
	})
	defer randstr.SetVerifNext(nil)
	s := newScheduler()
	s.extQuiet = 60 * time.Millisecond
	ids := make([]string, threads)
	dirs := make([]string, threads)
	errs := make([]error, threads)
	for i := 0; i < threads; i++ {
		i := i
		s.add(fmt.Sprintf("alloc%d", i), func() {
			u, err := c13W.AllocateUnit("stub", nil)
			errs[i] = err
			if err == nil {
				ids[i] = u.ID()
				dirs[i] = u.UnitDir()
			}
		})
	}
	res := s.run(r)
	if res.deadlock {
		out.violate("unit:alloc-deadlock", "allocation dead-locked: %s", res.stuck)
		s.abandon()
		time.Sleep(50 * time.Millisecond)
	}
	for i := 0; i < threads; i++ {
		if errs[i] != nil {
			out.violate("unit:alloc-failed", "AllocateUnit failed: %v", errs[i])
		}
		for j := i + 1; j < threads; j++ {
			if ids[i] != "" && ids[i] == ids[j] {
				out.violate("unit:duplicate-id", "two concurrent allocations returned the same unit ID %s (directory %s); schedule %v", ids[i], dirs[i], res.trace)
			}
		}
	}
	// every returned unit is registered and has its own directory and status file
	known := map[string]bool{}
	for _, id := range c13W.ListKnownUnitIDs() {
		known[id] = true
	}
	for i := 0; i < threads; i++ {
		if ids[i] == "" {
			continue
		}
		if !known[ids[i]] {
			out.violate("unit:allocated-unit-unknown", "unit %s was returned but is not known", ids[i])
		}
		if _, err := os.Stat(filepath.Join(dirs[i], "status")); err != nil {
			out.violate("unit:allocated-unit-without-status", "unit %s has no status file: %v", ids[i], err)
		}
	}
	for i := 0; i < threads; i++ {
		if ids[i] != "" {
			c13W.ReleaseUnit(ids[i], true)
		}
	}
	return dedupViol(out.Viol)
}

// ---- (c) cancel against runner completion, ordered by gates across the two processes ------------------

type c13Gate struct {
	Role  string // which process waits: runner | daemon
	Point string
	Hit   int // hold at the Hit-th arrival at the point (0, 1: the first)
}

func countLines(path string) int {
	b, _ := os.ReadFile(path)
	return strings.Count(string(b), "\n")
}

// waitArrivals waits until the gate has been reached n times, letting the first n-1 arrivals pass.
func waitArrivals(dir string, g c13Gate, n int, timeout time.Duration) bool {
	dl := time.Now().Add(timeout)
	for h := 1; h <= n; h++ {
		for countLines(gateFile(dir, g, "arrived")) < h {
			if time.Now().After(dl) {
				return false
			}
			time.Sleep(5 * time.Millisecond)
		}
		if h < n {
			os.WriteFile(gateFile(dir, g, "go"), nil, 0o600)
			time.Sleep(60 * time.Millisecond)
			os.Remove(gateFile(dir, g, "go"))
		}
	}
	return true
}

func childrenOf(pid int) []int {
	out, _ := exec.Command("pgrep", "-P", strconv.Itoa(pid)).Output()
	var res []int
	for _, f := range strings.Fields(string(out)) {
		if p, err := strconv.Atoi(f); err == nil {
			res = append(res, p)
		}
	}
	return res
}

func gateFile(dir string, g c13Gate, suffix string) string {
	return filepath.Join(dir, "gates", g.Role+"."+g.Point+"."+suffix)
}

func waitFile(path string, timeout time.Duration) bool {
	dl := time.Now().Add(timeout)
	for time.Now().Before(dl) {
		if _, err := os.Stat(path); err == nil {
			return true
		}
		time.Sleep(5 * time.Millisecond)
	}
	return false
}

func runC13CancelRace(g c13Gate, unit string) CaseOut {
	var out CaseOut
	out.Nontrivial = true
	dir, _ := os.MkdirTemp(scratchDir(), "c13g-")
	defer os.RemoveAll(dir)
	os.MkdirAll(filepath.Join(dir, "gates"), 0o700)
	obs := filepath.Join(dir, "obs.log")
	os.WriteFile(gateFile(dir, g, "wait"), nil, 0o600)
	d, err := startDaemon(dir, "n1", []string{"VERIF_OBS_LOG=" + obs, "VERIF_GATE_DIR=" + filepath.Join(dir, "gates")})
	if err != nil {
		out.violate("harness:c13-daemon", "%v", err)
		if d != nil {
			d.kill()
		}
		return out
	}
	defer func() {
		d.kill()
		killStrayRunners(dir)
	}()
	ctx := fmt.Sprintf("gate %s.%s unit=%s", g.Role, g.Point, unit)
	sub := d.submit("n1", unit, []byte("data\n"), 15*time.Second)
	if sub.ID == "" {
		out.violate("harness:c13-submit", "%s: %+v", ctx, sub)
		return out
	}
	id := sub.ID
	var cancelReply string
	var seenBefore *unitStatus
	if g.Role == "runner" {
		// the runner is held at the point; the whole cancel runs meanwhile
		hit := g.Hit
		if hit < 1 {
			hit = 1
		}
		if !waitArrivals(dir, g, hit, 20*time.Second) {
			out.count("gate_not_reached", 1)
			out.Outcome = "gate-not-reached"
			return out
		}
		var runnerPid int
		if b, err := os.ReadFile(gateFile(dir, g, "arrived")); err == nil {
			f := strings.Fields(string(b))
			if len(f) > 0 {
				runnerPid, _ = strconv.Atoi(f[len(f)-1])
			}
		}
		cmdProcs := childrenOf(runnerPid)
		defer func() {
			for _, p := range cmdProcs {
				syscall.Kill(p, syscall.SIGKILL)
			}
		}()
		time.Sleep(700 * time.Millisecond) // let the daemon's monitor load the record
		seenBefore, _, _ = d.status(id, 10*time.Second)
		done := make(chan struct{})
		go func() {
			cancelReply, _ = d.ask("work cancel "+id, 30*time.Second)
			close(done)
		}()
		select {
		case <-done:
		case <-time.After(3 * time.Second):
			// cancel waits for the process: let the runner go on
		}
		os.WriteFile(gateFile(dir, g, "go"), nil, 0o600)
		if unit == "long" {
			// the command would run for another 25 s: a cancel that was requested while the runner was busy
			// must still stop it
			select {
			case <-done:
			case <-time.After(10 * time.Second):
			}
			time.Sleep(300 * time.Millisecond)
			for _, p := range append([]int{runnerPid}, cmdProcs...) {
				if pidAlive(p) {
					out.violate("unit:cancel-left-process", "%s: 10 s after the cancel (reply %q) process %d of the unit is still running", ctx, trunc(cancelReply, 60), p)
					syscall.Kill(p, syscall.SIGKILL)
				}
			}
		}
		<-done
	} else {
		// the daemon's cancel is held at the point; the runner finishes meanwhile
		d.waitState(id, 15*time.Second, 1, 2, 3)
		done := make(chan struct{})
		go func() {
			cancelReply, _ = d.ask("work cancel "+id, 40*time.Second)
			close(done)
		}()
		if !waitFile(gateFile(dir, g, "arrived"), 10*time.Second) {
			out.count("gate_not_reached", 1)
			<-done
		} else {
			time.Sleep(3 * time.Second) // slow / cat units finish here
			seenBefore, _, _ = d.status(id, 10*time.Second)
			os.WriteFile(gateFile(dir, g, "go"), nil, 0o600)
			<-done
		}
	}
	time.Sleep(1200 * time.Millisecond)
	after, _, _ := d.status(id, 10*time.Second)
	if seenBefore != nil && after != nil {
		if seenBefore.State == 2 && (after.State != 2 || after.StdoutSize != seenBefore.StdoutSize) {
			out.violate("unit:reported-succeeded-not-final", "%s: status said Succeeded (size %d), after the cancel (%q) it says state %d (%s) size %d", ctx, seenBefore.StdoutSize, trunc(cancelReply, 60), after.State, after.StateName, after.StdoutSize)
		}
		if stageOf(after.State) < stageOf(seenBefore.State) {
			out.violate("unit:reported-state-went-back", "%s: state %d after state %d", ctx, after.State, seenBefore.State)
		}
	}
	n := checkObsLog(&out, readObsLog(obs), ctx)
	out.count("status_rewrites_observed", n)
	b, a := -1, -1
	if seenBefore != nil {
		b = seenBefore.State
	}
	if after != nil {
		a = after.State
	}
	out.Outcome = fmt.Sprintf("cancel-race before=%d after=%d", b, a)
	out.Sample = map[string]any{"gate": g, "unit": unit, "state_before_cancel": b, "state_after": a, "cancel_reply": cancelReply}
	return out
}

// runC13RemoteRelease: a unit that really ran on another node (two real daemons over TCP). After it has finished, the
// given commands are sent to the submitting node one right after the other; once a release has answered "released" the
// unit is gone from the submitting node (not listed, directory removed) within a few seconds — whatever followed.
func runC13RemoteRelease(cmds []string) CaseOut {
	var out CaseOut
	out.Nontrivial = true
	dir, err := os.MkdirTemp(scratchDir(), "c13r-")
	if err != nil {
		out.violate("harness:c13r-tmp", "%v", err)
		return out
	}
	defer os.RemoveAll(dir)
	defer killStrayRunners(dir)
	dir1, dir2 := filepath.Join(dir, "n1"), filepath.Join(dir, "n2")
	os.MkdirAll(dir1, 0o700)
	os.MkdirAll(dir2, 0o700)
	d2, port, err := startDaemonListening(dir2, "n2", nil)
	if err != nil {
		out.violate("harness:c13r-daemon", "n2: %v", err)
		return out
	}
	defer d2.kill()
	d1, err := startDaemon(dir1, "n1", nil, "--tcp-peer", fmt.Sprintf("address=127.0.0.1:%d", port), "redial=true")
	if err != nil {
		out.violate("harness:c13r-daemon", "n1: %v", err)
		if d1 != nil {
			d1.kill()
		}
		return out
	}
	defer d1.kill()
	if !d1.waitRoute("n2", 15*time.Second) {
		out.violate("harness:c13r-route", "n1 never learned a route to n2")
		return out
	}
	sub := d1.submit("n2", "cat", []byte("remote\n"), 20*time.Second)
	if sub.ID == "" {
		out.violate("harness:c13r-submit", "%+v", sub)
		return out
	}
	id := sub.ID
	if _, err := d1.waitState(id, 30*time.Second, 2); err != nil {
		out.violate("harness:c13r-wait", "the remote unit did not succeed: %v", err)
		return out
	}
	unitDir := filepath.Join(dir1, "data", "n1", id)
	released := false
	var replies []string
	for _, c := range cmds {
		r, _ := d1.ask("work "+c+" "+id, 25*time.Second)
		replies = append(replies, trunc(r, 60))
		if strings.Contains(r, "released") && !strings.HasPrefix(r, "ERROR") {
			released = true
		}
	}
	ctx := fmt.Sprintf("remote unit on n2, commands %v sent back to back (replies %q)", cmds, replies)
	if released {
		gone := false
		for dl := time.Now().Add(10 * time.Second); time.Now().Before(dl); time.Sleep(200 * time.Millisecond) {
			l, _, err := d1.list(5 * time.Second)
			_, listed := l[id]
			_, serr := os.Stat(unitDir)
			if err == nil && !listed && os.IsNotExist(serr) {
				gone = true
				break
			}
		}
		if !gone {
			l, raw, _ := d1.list(5 * time.Second)
			_, listed := l[id]
			_, serr := os.Stat(unitDir)
			out.violate("unit:known-after-release:remote", "%s: 10 s after a release was answered the unit is still there (listed=%v, directory exists=%v): %s", ctx, listed, serr == nil, trunc(raw, 200))
		}
	}
	out.Outcome = fmt.Sprintf("remote-release %v released=%v", cmds, released)
	return out
}

func runC13(w *W) {
	for _, cmds := range [][]string{{"release"}, {"release", "release"}, {"release", "cancel"}, {"cancel", "release"}, {"release", "release", "release"}, {"release", "force-release"}} {
		cmds := cmds
		w.Case(fmt.Sprintf("remote unit that ran on n2: %v", cmds), func() CaseOut { return runC13RemoteRelease(cmds) })
	}
	ops := []string{"status", "list", "cancel", "release", "force-release", "results"}
	maxLen := 2
	if w.Thorough() {
		maxLen = 3
	}
	var seqs [][]string
	var rec func(p []string)
	rec = func(p []string) {
		if len(p) > 0 {
			seqs = append(seqs, append(append([]string{}, p...), "status", "list"))
		}
		if len(p) == maxLen {
			return
		}
		for _, o := range ops {
			rec(append(append([]string{}, p...), o))
		}
	}
	rec(nil)
	for _, unit := range []string{"cat", "fail", "long", "remote"} {
		for _, sq := range seqs {
			sc := c13Seq{Unit: unit, Ops: sq}
			w.Case(fmt.Sprintf("seq unit=%s ops=%v", unit, sq), func() CaseOut {
				o := runC13Seq(sc)
				if unit == "long" && len(sq) == 4 && sq[0] == "cancel" && sq[1] == "release" {
					o.Sample = map[string]any{"unit": unit, "ops": sq, "outcome": o.Outcome, "rewrites": o.Counters["status_rewrites_observed"]}
				}
				return o
			})
		}
	}
	for _, g := range []c13Gate{{"runner", "runner.started", 1}, {"runner", "runner.final_written", 1}, {"daemon", "cancel.before_signal", 1}, {"daemon", "cancel.before_write", 1}} {
		for _, unit := range []string{"cat", "slow", "fail"} {
			g, unit := g, unit
			w.Case(fmt.Sprintf("cancel-race gate=%s.%s unit=%s", g.Role, g.Point, unit), func() CaseOut { return runC13CancelRace(g, unit) })
		}
	}
	// the cancel signal arrives while the runner is busy: before its loop, and on its way into a periodic rewrite
	for _, g := range []c13Gate{{"runner", "runner.started", 1}, {"runner", "lock.before", 2}, {"runner", "lock.before", 3}} {
		for _, unit := range []string{"long", "slow"} {
			g, unit := g, unit
			if g.Point == "runner.started" && unit == "slow" {
				continue // covered above
			}
			w.Case(fmt.Sprintf("cancel-race gate=%s.%s#%d unit=%s", g.Role, g.Point, g.Hit, unit), func() CaseOut { return runC13CancelRace(g, unit) })
		}
	}
	// a release racing with look-ups of the same unit
	for _, cmds := range [][]string{{"release U1", "status U1"}, {"release U1", "list"}, {"force-release U1", "status U1"}, {"release U1", "list U1"}, {"release U1", "cancel U1"}, {"release U1", "release U1"}, {"release U1", "status U1", "list"}} {
		cmds := cmds
		b := 2
		if len(cmds) > 2 {
			b = 1
		}
		w.explorerCase(fmt.Sprintf("release race %v p=%d", cmds, b), b, func(r *xrun) []Violation { return runC13ReleaseConc(cmds, r) })
	}
	for _, n := range []int{2, 3} {
		n := n
		b := 2
		if n == 3 && !w.Thorough() {
			b = 1
		}
		w.explorerCase(fmt.Sprintf("alloc threads=%d p=%d", n, b), b, func(r *xrun) []Violation { return runC13Alloc(n, r) })
	}
}

var _ = json.Marshal

func init() {
	register(&PropSpec{
		ID:        "C13",
		Level:     "model_checking",
		Technique: "exhaustive enumeration of operation sequences on the real daemon with a status-rewrite observer in daemon and runner processes; cross-process orderings of cancel against runner completion enforced by gates at hook points; concurrent AllocateUnit with forced identical random IDs under the cooperative scheduler (context-bounded DFS)",
		Rule: "sequences: every sequence of <=2 (quick) / <=3 (thorough) commands from {status, list, cancel, release, force-release, results} (each followed by status+list) on a finished-successful, a finished-failed, a running command unit and a pending remote unit, one real daemon per sequence; cancel races: the runner held at {started, final record written} while cancel runs, and cancel held at {before signal, before its status write} while the runner finishes, for three work types; remote units that really ran on a second daemon: 6 sequences of release / cancel / force-release sent back to back (gone within 10 s of a release being answered); release races: release / force-release of a unit against status, list, cancel and a second release of the same unit as threads of the cooperative scheduler (<=2 preemptions; hook points before and after the directory is removed); allocation: 2 and 3 concurrent AllocateUnit calls whose first random draw is identical, all schedules with <=2 (3 threads quick: 1) preemptions. " +
			"Oracle: every observed status rewrite moves forward (stage order, Succeeded final with constant size, output size not shrinking while running); reported states likewise; release => unknown + directory gone; cancel => command process gone; IDs pairwise distinct. Each case is distinct and non-trivial.",
		Assumptions: []string{"real-time runs: no oracle depends on an interval shorter than the generous time-outs; a gate that is not reached is counted, not judged", "threads blocked on locks without hook points (activeUnitsLock) are recognised by a 60 ms quiet period"},
		Run:         runC13,
		CaseTimeout: 150 * time.Second,
		NoFailFast:  true,
	})
}
