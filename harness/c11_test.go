package harness

import (
	"fmt"
	"sort"
	"strings"
	"testing"
	"testing/synctest"
	"time"

	"github.com/ansible/receptor/pkg/netceptor"
)

// C11 — only admissible peers stay connected: allow-list, identity, cost, one per ID.

type c11Case struct {
	Announce  string // forwarder ID announced in the hello: "", "v" (local), "p", "q" (not on the list), "g" (already connected)
	OriginDif bool   // NodeID field differs from the forwarder
	CostForUs string // "absent", "equal", "different": what the peer lists for the local node in its own update
	AllowList bool   // backend allow-list [p, g]
	NodeCost  bool   // per-node cost override {p: 3, g: 3, q: 3}
	Later     string // "none", "other-forwarder", "stops-listing", "cost-change", "reject", "end"
}

func (c c11Case) String() string {
	return fmt.Sprintf("announce=%q origdiff=%v cost=%s allow=%v nodecost=%v later=%s", c.Announce, c.OriginDif, c.CostForUs, c.AllowList, c.NodeCost, c.Later)
}

func connIDs(n *netceptor.Netceptor) []string {
	var ids []string
	for _, c := range n.Status().Connections {
		ids = append(ids, fmt.Sprintf("%s:%g", c.NodeID, c.Cost))
	}
	sort.Strings(ids)
	return ids
}

func hasConn(n *netceptor.Netceptor, id string) bool {
	for _, c := range n.Status().Connections {
		if c.NodeID == id {
			return true
		}
	}
	return false
}

// sentReject reports whether node x sent a type-3 message to the scripted peer.
func (m *mesh) sentReject(x, peer string) bool {
	for _, d := range m.recvd[peer] {
		if len(d) > 0 && d[0] == 3 {
			return true
		}
	}
	if s := m.sess[x+">"+peer]; s != nil {
		s.mu.Lock()
		defer s.mu.Unlock()
		for _, q := range s.outbox {
			if len(q.data) > 0 && q.data[0] == 3 {
				return true
			}
		}
	}
	return false
}

func runC11Case(t *testing.T, c c11Case) CaseOut {
	var out CaseOut
	out.Nontrivial = true
	bubble(t, func(t *testing.T) {
		m := newMesh(defaultConsts, "v", "g")
		m.up("v", "g", 1)
		m.settle()
		var mods []func(*netceptor.BackendInfo)
		linkCost := 1.0
		mods = append(mods, netceptor.BackendConnectionCost(1))
		if c.AllowList {
			mods = append(mods, netceptor.BackendAllowedPeers([]string{"p", "g"}))
		}
		if c.NodeCost {
			mods = append(mods, netceptor.BackendNodeCost(map[string]float64{"p": 3, "g": 3, "q": 3}))
			if c.Announce == "p" || c.Announce == "g" || c.Announce == "q" {
				linkCost = 3
			}
		}
		peer := m.attach("v", "peer", mods...)
		origin := c.Announce
		if c.OriginDif {
			origin = "zz"
		}
		seq := uint64(1)
		send := func(fwd, org string, conns map[string]float64) {
			peer.inject(mkRoute(wireRoute{NodeID: org, UpdateID: fmt.Sprintf("c11-%d", seq), UpdateEpoch: 77, UpdateSequence: seq, Connections: conns, ForwardingNode: fwd}))
			seq++
			synctest.Wait()
			m.settle()
		}
		ownConns := func(kind string) map[string]float64 {
			switch kind {
			case "equal":
				return map[string]float64{"v": linkCost}
			case "different":
				return map[string]float64{"v": linkCost + 1}
			}
			return map[string]float64{}
		}
		// hello
		send(c.Announce, origin, ownConns(c.CostForUs))
		// the peer's own first regular update (this is where the cost is compared)
		if !peer.isClosed() {
			send(c.Announce, c.Announce, ownConns(c.CostForUs))
		}
		// reference admission predicate
		admissible := c.Announce != "" && c.Announce != "v" && c.Announce != "g" && (!c.AllowList || c.Announce == "p") && c.CostForUs != "different"
		ctx := c.String()
		stillUp := admissible
		if admissible && !peer.isClosed() {
			switch c.Later {
			case "other-forwarder":
				send("zz", "zz", map[string]float64{"v": linkCost})
				stillUp = false
			case "stops-listing":
				if c.CostForUs == "equal" {
					send(c.Announce, c.Announce, map[string]float64{"other": 1})
					stillUp = false
				}
			case "cost-change":
				send(c.Announce, c.Announce, map[string]float64{"v": linkCost + 2})
				stillUp = false
			case "reject":
				peer.inject([]byte{3, '[', ']'})
				synctest.Wait()
				m.settle()
				stillUp = false
			case "end":
				peer.Close()
				synctest.Wait()
				m.settle()
				stillUp = false
			}
		}
		m.settle()
		st := m.nodes["v"].Status()
		id := c.Announce
		connected := hasConn(m.nodes["v"], id) && id != "g"
		if id == "g" {
			// the legitimate g must survive; no second entry can exist (map), so check the session instead
			connected = !peer.isClosed() && !m.sentReject("v", "peer")
		}
		if stillUp && !connected {
			out.violate("admit:admissible-peer-not-connected", "%s: the peer is admissible but v lists connections %v", ctx, connIDs(m.nodes["v"]))
		}
		if !stillUp {
			cls := "later-" + c.Later
			if !admissible {
				switch {
				case c.Announce == "":
					cls = "empty-id"
				case c.Announce == "v":
					cls = "own-id"
				case c.Announce == "g":
					cls = "already-connected"
				case c.AllowList && c.Announce != "p":
					cls = "not-on-allow-list"
				default:
					cls = "cost-disagreement"
				}
			}
			if connected {
				out.violate("admit:inadmissible-peer-connected:"+cls, "%s: must not be connected, but v lists %v", ctx, connIDs(m.nodes["v"]))
			}
			if id != "g" && id != "v" {
				if _, ok := st.RoutingTable[id]; ok {
					out.violate("admit:route-left-behind:"+cls, "%s: routing table still has %q: %v", ctx, id, st.RoutingTable)
				}
				if _, ok := st.KnownConnectionCosts["v"][id]; ok {
					out.violate("admit:cost-left-behind:"+cls, "%s: v still records a link to %q: %v", ctx, id, st.KnownConnectionCosts)
				}
				if _, ok := st.KnownConnectionCosts[id]["v"]; ok {
					out.violate("admit:cost-left-behind:"+cls, "%s: v still records %q's link to itself: %v", ctx, id, st.KnownConnectionCosts)
				}
			}
			if !admissible && c.Announce != "" || !admissible && c.Announce == "" {
				if !m.sentReject("v", "peer") && !peer.isClosed() {
					out.violate("admit:no-reject-message:"+cls, "%s: the session was neither rejected (type-3 message) nor closed", ctx)
				}
			}
		}
		// the well-behaved neighbour is unaffected
		if !hasConn(m.nodes["v"], "g") {
			out.violate("admit:good-peer-lost", "%s: v lost its connection to g: %v", ctx, connIDs(m.nodes["v"]))
		} else if from, err := m.ping("g", "v", 5); err != nil || from != "v" {
			out.violate("admit:good-peer-lost", "%s: ping g->v = %q, %v", ctx, from, err)
		}
		// data from a rejected peer is not routed
		if !stillUp && !peer.isClosed() {
			before := len(m.recvd["g"])
			_ = before
			peer.inject(mkData(5, "peer", "g", "x", "ping", nil))
			synctest.Wait()
			carried := false
			if s := m.sess["v>g"]; s != nil {
				s.mu.Lock()
				for _, q := range s.outbox {
					if h, ok := parseData(q.data); ok && h.ToSvc == "ping" && h.FromSvc == "x" {
						carried = true
					}
				}
				s.mu.Unlock()
			}
			if carried {
				out.violate("admit:rejected-peer-traffic-routed", "%s: a datagram from the rejected session was forwarded to g", ctx)
			}
		}
		out.Outcome = fmt.Sprintf("admissible=%v up=%v", admissible, stillUp)
		m.end()
	})
	return out
}

// simultaneous sessions: k scripted sessions whose hellos (and first updates) are delivered in every order
func runC11Simul(t *testing.T, ids []string, order []int, stalled int) CaseOut {
	var out CaseOut
	out.Nontrivial = true
	bubble(t, func(t *testing.T) {
		m := newMesh(defaultConsts, "v")
		var peers []*hSess
		var stall chan struct{}
		for i := range ids {
			p := m.attach("v", fmt.Sprintf("s%d", i))
			peers = append(peers, p)
			if i == stalled {
				// the node's writes on this session do not complete for a while (a stream backend under back-pressure)
				stall = make(chan struct{})
				m.sess["v>"+fmt.Sprintf("s%d", i)].stall = stall
			}
		}
		if stall != nil {
			time.Sleep(2500 * time.Millisecond) // the initial-connect sender is now stuck behind the stalled write
			synctest.Wait()
		}
		// two messages per session: hello, then own update; order lists session indices (each twice)
		sent := map[int]int{}
		for _, si := range order {
			p := peers[si]
			if !p.isClosed() {
				p.inject(mkRoute(wireRoute{NodeID: ids[si], UpdateID: fmt.Sprintf("s%d-%d", si, sent[si]), UpdateEpoch: uint64(50 + si), UpdateSequence: uint64(sent[si] + 1), Connections: map[string]float64{"v": 1}, ForwardingNode: ids[si]}))
				synctest.Wait()
			}
			sent[si]++
			if stall == nil {
				m.flush()
			}
		}
		if stall != nil {
			time.Sleep(500 * time.Millisecond)
			synctest.Wait()
			close(stall)
			synctest.Wait()
		}
		m.settle()
		// per distinct ID exactly one session survives (the one whose hello came first); others got a reject
		firstOf := map[string]int{}
		for _, si := range order {
			if _, ok := firstOf[ids[si]]; !ok {
				firstOf[ids[si]] = si
			}
		}
		ctx := fmt.Sprintf("ids=%v order=%v stalled=%d", ids, order, stalled)
		for i, id := range ids {
			alive := !peers[i].isClosed() && !m.sentReject("v", fmt.Sprintf("s%d", i))
			if firstOf[id] == i && !alive {
				out.violate("admit:first-session-lost", "%s: session %d announced %q first but was rejected", ctx, i, id)
			}
			if firstOf[id] != i && alive {
				out.violate("admit:duplicate-id-session-kept", "%s: session %d announced %q after session %d and was kept", ctx, i, id, firstOf[id])
			}
		}
		want := map[string]bool{}
		for _, id := range ids {
			want[id] = true
		}
		got := map[string]bool{}
		for _, c := range m.nodes["v"].Status().Connections {
			got[c.NodeID] = true
		}
		if len(got) != len(want) {
			out.violate("admit:connection-set", "%s: connections %v, want exactly %v", ctx, connIDs(m.nodes["v"]), want)
		}
		// ending the surviving session forgets the connection
		for id, i := range firstOf {
			peers[i].Close()
			synctest.Wait()
			m.settle()
			if hasConn(m.nodes["v"], id) {
				out.violate("admit:connection-not-forgotten", "%s: session of %q ended but the connection is still listed", ctx, id)
			}
		}
		out.Outcome = fmt.Sprintf("simul n=%d distinct=%d", len(ids), len(want))
		m.end()
	})
	return out
}

// runC11RefusedThenBack: an established peer is refused later on (it changes the cost it announces, stops listing us, or
// changes its ID) while the node's writes on that session are stalled, so that the reject message waits; the peer comes
// back on a new session, which is admissible and is admitted; then the old session's writes go through and it ends.
// The new session is the peer's connection from then on: listed, with cost entries and a route, and it is the one a third
// session with the same ID is refused for.
func runC11RefusedThenBack(t *testing.T, how string) CaseOut {
	var out CaseOut
	out.Nontrivial = true
	bubble(t, func(t *testing.T) {
		m := newMesh(defaultConsts, "v")
		upd := func(seq uint64, conns map[string]float64, id string) []byte {
			return mkRoute(wireRoute{NodeID: id, UpdateID: fmt.Sprintf("%s-%d", id, seq), UpdateEpoch: 70, UpdateSequence: seq, Connections: conns, ForwardingNode: id})
		}
		p0 := m.attach("v", "s0")
		p0.inject(upd(1, map[string]float64{"v": 1}, "r"))
		synctest.Wait()
		m.flush()
		p0.inject(upd(2, map[string]float64{"v": 1}, "r"))
		synctest.Wait()
		m.settle()
		if !hasConn(m.nodes["v"], "r") {
			out.violate("harness:c11-back-setup", "the first session was not established: %v", connIDs(m.nodes["v"]))
			m.end()
			return
		}
		stall := make(chan struct{})
		m.sess["v>s0"].stall = stall
		// the node has something to send on that session (another neighbour's update to relay): its writer is now stuck
		// in the stalled write, so whatever is queued behind it — the reject message — has to wait
		pg := m.attach("v", "g0")
		pg.inject(mkRoute(wireRoute{NodeID: "g", UpdateID: "g-1", UpdateEpoch: 60, UpdateSequence: 1, Connections: map[string]float64{"v": 1}, ForwardingNode: "g"}))
		synctest.Wait()
		pg.inject(mkRoute(wireRoute{NodeID: "g", UpdateID: "g-2", UpdateEpoch: 60, UpdateSequence: 2, Connections: map[string]float64{"v": 1}, ForwardingNode: "g"}))
		synctest.Wait()
		time.Sleep(300 * time.Millisecond)
		synctest.Wait()
		switch how {
		case "cost-change":
			p0.inject(upd(3, map[string]float64{"v": 7}, "r"))
		case "stops-listing-us":
			p0.inject(upd(3, map[string]float64{"zz": 1}, "r"))
		case "id-change":
			p0.inject(upd(3, map[string]float64{"v": 1}, "r2"))
		}
		synctest.Wait()
		time.Sleep(300 * time.Millisecond)
		synctest.Wait()
		// the peer comes back
		p1 := m.attach("v", "s1")
		p1.inject(mkRoute(wireRoute{NodeID: "r", UpdateID: "back-1", UpdateEpoch: 71, UpdateSequence: 1, Connections: map[string]float64{"v": 1}, ForwardingNode: "r"}))
		synctest.Wait()
		m.flush()
		p1.inject(mkRoute(wireRoute{NodeID: "r", UpdateID: "back-2", UpdateEpoch: 71, UpdateSequence: 2, Connections: map[string]float64{"v": 1}, ForwardingNode: "r"}))
		synctest.Wait()
		m.flush()
		time.Sleep(300 * time.Millisecond)
		synctest.Wait()
		admitted := !p1.isClosed() && !m.sentReject("v", "s1") && hasConn(m.nodes["v"], "r")
		// now the old session's writes go through
		close(stall)
		synctest.Wait()
		m.settle()
		time.Sleep(time.Second)
		synctest.Wait()
		m.settle()
		ctx := "established peer refused for " + how + " while its session's writes were stalled, came back on a new session, then the old session ended"
		if !admitted {
			out.count("comeback_not_admitted", 1) // the ID was still taken: nothing further to judge
			out.Outcome = "refused-then-back: not admitted"
			m.end()
			return
		}
		st := m.nodes["v"].Status()
		if !hasConn(m.nodes["v"], "r") {
			out.violate("admit:successor-session-forgotten:connection", "%s: the new session is open and was never refused, but r is not among the connections %v", ctx, connIDs(m.nodes["v"]))
		}
		if _, ok := st.KnownConnectionCosts["v"]["r"]; !ok {
			out.violate("admit:successor-session-forgotten:cost-entry", "%s: no cost entry v->r: %v", ctx, st.KnownConnectionCosts)
		}
		if st.RoutingTable["r"] != "r" {
			out.violate("admit:successor-session-forgotten:route", "%s: routing table %v", ctx, st.RoutingTable)
		}
		// one connection per ID: a third session with that ID is refused
		p2 := m.attach("v", "s2")
		p2.inject(mkRoute(wireRoute{NodeID: "r", UpdateID: "third-1", UpdateEpoch: 72, UpdateSequence: 1, Connections: map[string]float64{"v": 1}, ForwardingNode: "r"}))
		synctest.Wait()
		m.settle()
		if !p1.isClosed() && !p2.isClosed() && !m.sentReject("v", "s2") {
			out.violate("admit:duplicate-id-session-kept", "%s: a third session announcing r was admitted next to the open second one", ctx)
		}
		out.Outcome = fmt.Sprintf("refused-then-back: %s (old session refused=%v closed=%v)", how, m.sentReject("v", "s0"), p0.isClosed())
		m.end()
	})
	return out
}

// twin: two real nodes with the same ID; the later-started one must shut itself down
func runC11Twin(t *testing.T, names []string, edges [][2]string, twinOf, attachAt string, r *xrun) []Violation {
	var out CaseOut
	bubble(t, func(t *testing.T) {
		m := newMesh(defaultConsts, names...)
		m.idOf = map[string]string{}
		for _, e := range edges {
			m.up(e[0], e[1], 1)
		}
		m.closure(1)
		m.idOf["twin"] = twinOf
		time.Sleep(1100 * time.Millisecond)
		m.start("twin")
		m.up("twin", attachAt, 1)
		r.steps++
		res := m.exploreSettle(r, settleOpts{ctx: "twin", noHold: false})
		if res != "pruned" {
			// a few route periods: the notice travels with routing updates
			for i := 0; i < 3; i++ {
				for j := 0; j < 4; j++ {
					m.tick(m.consts.routeTime / 4)
					m.flush()
				}
				m.settle()
			}
			done := func(n string) bool {
				select {
				case <-m.nodes[n].NetceptorDone():
					return true
				default:
					return false
				}
			}
			// a node that is directly connected to the earlier holder of the ID rejects the twin's session
			// (one connection per ID): the twin never becomes part of the mesh and there is nothing to resolve
			directlyConnected := false
			for _, e := range edges {
				if (e[0] == attachAt && e[1] == twinOf) || (e[1] == attachAt && e[0] == twinOf) {
					directlyConnected = true
				}
			}
			if directlyConnected {
				if hasConn(m.nodes["twin"], attachAt) {
					out.violate("twin:second-session-for-connected-id", "twin of %s attached at %s, which is already connected to %s: the twin's session was kept", twinOf, attachAt, twinOf)
				}
				if !hasConn(m.nodes[attachAt], twinOf) || m.sess[attachAt+">"+twinOf] == nil || m.sess[attachAt+">"+twinOf].isClosed() {
					out.violate("twin:earlier-node-disconnected", "twin of %s attached at %s: the connection to the earlier node was lost", twinOf, attachAt)
				}
			} else if !done("twin") {
				out.violate("twin:later-node-keeps-running", "twin of %s attached at %s: the later-started node did not shut down", twinOf, attachAt)
			}
			for _, n := range names {
				if done(n) {
					out.violate("twin:earlier-node-shut-down", "twin of %s attached at %s: node %s (started earlier) shut down", twinOf, attachAt, n)
				}
			}
		}
		m.end()
	})
	return dedupViol(out.Viol)
}

func perms(multiset []int) [][]int {
	var res [][]int
	var rec func(cur []int, rest []int)
	rec = func(cur []int, rest []int) {
		if len(rest) == 0 {
			res = append(res, append([]int{}, cur...))
			return
		}
		used := map[int]bool{}
		for i, x := range rest {
			if used[x] {
				continue
			}
			used[x] = true
			nr := append(append([]int{}, rest[:i]...), rest[i+1:]...)
			rec(append(cur, x), nr)
		}
	}
	rec(nil, multiset)
	return res
}

func runC11(w *W) {
	for _, how := range []string{"cost-change", "stops-listing-us", "id-change"} {
		how := how
		w.Case("refused later, back on a new session: "+how, func() CaseOut { return runC11RefusedThenBack(w.T, how) })
	}
	for _, ann := range []string{"", "v", "p", "q", "g", "px"} {
		for _, od := range []bool{false, true} {
			for _, cost := range []string{"absent", "equal", "different"} {
				for _, al := range []bool{false, true} {
					for _, nc := range []bool{false, true} {
						for _, later := range []string{"none", "other-forwarder", "stops-listing", "cost-change", "reject", "end"} {
							c := c11Case{ann, od, cost, al, nc, later}
							w.Case("admit "+c.String(), func() CaseOut {
								o := runC11Case(w.T, c)
								if ann == "p" && later == "cost-change" && al && nc && !od && cost == "equal" {
									o.Sample = map[string]any{"case": c.String(), "outcome": o.Outcome}
								}
								return o
							})
						}
					}
				}
			}
		}
	}
	for _, ids := range [][]string{{"p", "p"}, {"p", "q"}, {"p", "p", "p"}, {"p", "p", "q"}, {"p", "q", "r"}} {
		var ms []int
		for i := range ids {
			ms = append(ms, i, i)
		}
		for _, ord := range perms(ms) {
			for stalled := -1; stalled < len(ids); stalled++ {
				ids, ord, stalled := ids, ord, stalled
				w.Case(fmt.Sprintf("simul ids=%v order=%v stalled=%d", ids, ord, stalled), func() CaseOut { return runC11Simul(w.T, ids, ord, stalled) })
			}
		}
	}
	chain := [][2]string{{"a", "b"}, {"b", "c"}}
	tri := [][2]string{{"a", "b"}, {"b", "c"}, {"a", "c"}}
	bound := 1
	if w.Thorough() {
		bound = 2
	}
	for _, topo := range []struct {
		name  string
		edges [][2]string
	}{{"chain", chain}, {"triangle", tri}} {
		for _, twinOf := range []string{"a", "b", "c"} {
			for _, at := range []string{"a", "b", "c"} {
				if at == twinOf {
					continue // a node rejects a peer announcing its own ID
				}
				topo, twinOf, at := topo, twinOf, at
				id := fmt.Sprintf("twin topo=%s of=%s at=%s d=%d", topo.name, twinOf, at, bound)
				w.explorerCase(id, bound, func(r *xrun) []Violation {
					return runC11Twin(w.T, []string{"a", "b", "c"}, topo.edges, twinOf, at, r)
				})
			}
		}
	}
}

var _ = strings.Join

func init() {
	register(&PropSpec{
		ID:        "C11",
		Level:     "model_checking",
		Technique: "exhaustive enumeration of the handshake/announcement product with scripted peers against a reference admission predicate, every delivery order of simultaneous sessions, and deviation-bounded DFS over delivery schedules for same-ID twins; real Netceptor nodes in a synctest bubble",
		Rule: "admission: announced ID {empty, local, allowed, not allowed, extension of an allowed ID, already connected} x origin field {same, different} x cost listed for us {absent, equal, different} x allow-list {none, set} x per-node cost override {none, set} x later behaviour {none, other forwarder, stops listing us, cost change, reject message, session end} (all 864); " +
			"simultaneous sessions: 2 and 3 sessions with equal/different IDs, every interleaving of their hello and first update (all multiset permutations), with no session or any one session under write back-pressure (its Send blocked while the hellos arrive); twins: later-started node with the ID of a, b or c attached at every other position of a 3-chain and a triangle, all delivery schedules with <=1 (thorough 2) deviations. Every case is distinct and non-trivial.",
		Assumptions: []string{"handshake interleavings are explored at macro-step granularity (deliveries), not inside one handler", "twin start times differ by >= 1 virtual second"},
		Run:         runC11,
		CaseTimeout: 90 * time.Second,
	})
}
