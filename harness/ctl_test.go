package harness

import (
	"bytes"
	"context"
	"fmt"
	"io"
	"net"
	"os"
	"path/filepath"
	"strings"
	"testing/synctest"
	"time"

	"github.com/ansible/receptor/pkg/controlsvc"
	"github.com/ansible/receptor/pkg/netceptor"
	"github.com/ansible/receptor/pkg/workceptor"
	"github.com/fsnotify/fsnotify"
)

// Shared environment for control-service driven checks (C05 C08 C13 C15 C19): a real Netceptor,
// a real controlsvc.Server and a real Workceptor with in-process scripted work types; sessions run
// the real RunControlSession over an in-memory buffered pipe.

type stubWatcher struct{}

func (stubWatcher) Add(string) error                  { return fmt.Errorf("stub watcher") }
func (stubWatcher) Close() error                      { return nil }
func (stubWatcher) EventChannel() chan fsnotify.Event { return nil }

func init() {
	// fsnotify's reader goroutine can not live in a synctest bubble (it blocks in the poller)
	workceptor.VerifWatcherFactory = func() workceptor.WatcherWrapper { return stubWatcher{} }
}

// scriptedUnit is an in-process work unit whose life cycle is driven by the harness or runs a tiny
// built-in behaviour: "echo" copies stdin to stdout and succeeds; "hold" stays running until cancelled.
type scriptedUnit struct {
	workceptor.BaseWorkUnit
	kind     string
	env      *ctlEnv
	started  int
	canceled int
	released int
}

func (u *scriptedUnit) Start() error {
	u.started++
	u.env.record("start", u.ID())
	switch u.kind {
	case "echo":
		in, _ := os.ReadFile(filepath.Join(u.UnitDir(), "stdin"))
		sw, err := workceptor.NewStdoutWriter(workceptor.FileSystem{}, u.UnitDir())
		if err != nil {
			return err
		}
		u.UpdateBasicStatus(workceptor.WorkStateRunning, "running", 0)
		if len(in) > 0 {
			sw.Write(in)
		}
		u.UpdateBasicStatus(workceptor.WorkStateSucceeded, "done", sw.Size())
	case "hold":
		sw, err := workceptor.NewStdoutWriter(workceptor.FileSystem{}, u.UnitDir())
		if err != nil {
			return err
		}
		u.UpdateBasicStatus(workceptor.WorkStateRunning, "running", 0)
		sw.Write([]byte("partial"))
	}
	return nil
}

func (u *scriptedUnit) Restart() error { return nil }

func (u *scriptedUnit) Cancel() error {
	u.canceled++
	u.env.record("cancel", u.ID())
	u.CancelContext()
	st := u.Status()
	if !workceptor.IsComplete(st.State) {
		u.UpdateBasicStatus(workceptor.WorkStateCanceled, "Canceled", -1)
	}
	return nil
}

func (u *scriptedUnit) Release(force bool) error {
	u.released++
	u.env.record("release", u.ID())
	return u.BaseWorkUnit.Release(force)
}

type ctlEnv struct {
	n       *netceptor.Netceptor
	cs      *controlsvc.Server
	w       *workceptor.Workceptor
	dir     string
	events  []string // effects recorded by scripted units
	addrNet string   // network name reported by the server side of new sessions ("unix", "tcp", "netceptor-x")
	slowWrite time.Duration // >0: every write of the server side to the session takes this long before the bytes are taken (a client that is slow to read)
}

func (e *ctlEnv) record(kind, id string) { e.events = append(e.events, kind+" "+id) }

type workTypeSpec struct {
	name   string
	kind   string
	verify bool
}

func newCtlEnv(nodeID string, types []workTypeSpec) *ctlEnv {
	dir, err := os.MkdirTemp(scratchDir(), "ctl-")
	if err != nil {
		panic(err)
	}
	e := &ctlEnv{dir: dir, addrNet: "tcp"}
	e.n = netceptor.New(context.Background(), nodeID)
	e.n.Logger.SetOutput(io.Discard)
	netceptor.MainInstance = e.n
	e.cs = controlsvc.New(true, e.n)
	controlsvc.MainInstance = e.cs
	e.w, err = workceptor.New(e.n.Context(), e.n, dir)
	if err != nil {
		panic(err)
	}
	workceptor.MainInstance = e.w
	for _, t := range types {
		t := t
		err := e.w.RegisterWorker(t.name, func(_ workceptor.BaseWorkUnitForWorkUnit, w *workceptor.Workceptor, id, wt string) workceptor.WorkUnit {
			u := &scriptedUnit{kind: t.kind, env: e}
			u.BaseWorkUnit.Init(w, id, wt, workceptor.FileSystem{}, stubWatcher{})
			return u
		}, t.verify)
		if err != nil {
			panic(err)
		}
	}
	if err := e.w.RegisterWithControlService(e.cs); err != nil {
		panic(err)
	}
	return e
}

func (e *ctlEnv) dataDir() string { return filepath.Join(e.dir, e.n.NodeID()) }

func (e *ctlEnv) close() {
	e.n.Shutdown()
	os.RemoveAll(e.dir)
}

// addrConn overrides the addresses reported by a connection (the control service decides "local
// Unix socket" by RemoteAddr().Network()).
type addrConn struct {
	net.Conn
	network string
}

// slowWriteConn: the bytes of a Write are taken only after a delay (the socket's send buffer is full because the
// client is not reading); the caller's slice is referenced all that time, as with a real blocked write.
type slowWriteConn struct {
	net.Conn
	d time.Duration
}

func (c slowWriteConn) Write(p []byte) (int, error) {
	time.Sleep(c.d)
	return c.Conn.Write(p)
}

type fakeAddr struct{ network, s string }

func (a fakeAddr) Network() string { return a.network }
func (a fakeAddr) String() string  { return a.s }

func (c addrConn) RemoteAddr() net.Addr { return fakeAddr{c.network, "peer"} }
func (c addrConn) LocalAddr() net.Addr  { return fakeAddr{c.network, "local"} }

type ctlSession struct {
	c    net.Conn
	done chan struct{}
	buf  []byte
}

// open starts a control session (real RunControlSession) and consumes the greeting line.
func (e *ctlEnv) open() (*ctlSession, error) {
	a, b := bufPipe()
	s := &ctlSession{c: a, done: make(chan struct{})}
	var srv net.Conn = addrConn{Conn: b, network: e.addrNet}
	if e.slowWrite > 0 {
		srv = slowWriteConn{Conn: srv, d: e.slowWrite}
	}
	go func() {
		e.cs.RunControlSession(srv)
		close(s.done)
	}()
	l, err := s.readLine(30 * time.Second)
	if err != nil {
		return nil, fmt.Errorf("no greeting: %v", err)
	}
	if !strings.HasPrefix(l, "Receptor Control, node ") {
		return nil, fmt.Errorf("unexpected greeting %q", l)
	}
	return s, nil
}

func (s *ctlSession) send(b []byte) error {
	_, err := s.c.Write(b)
	return err
}

// readLine returns the next line (without the newline) or an error after the (virtual) timeout / EOF.
func (s *ctlSession) readLine(timeout time.Duration) (string, error) {
	s.c.SetReadDeadline(time.Now().Add(timeout))
	for {
		if i := bytes.IndexByte(s.buf, '\n'); i >= 0 {
			l := string(s.buf[:i])
			s.buf = s.buf[i+1:]
			return l, nil
		}
		tmp := make([]byte, 65536)
		n, err := s.c.Read(tmp)
		s.buf = append(s.buf, tmp[:n]...)
		if err != nil {
			if n > 0 {
				continue
			}
			return "", err
		}
	}
}

// readAll reads until EOF or timeout and returns everything (including buffered bytes).
func (s *ctlSession) readAll(timeout time.Duration) ([]byte, error) {
	s.c.SetReadDeadline(time.Now().Add(timeout))
	out := append([]byte(nil), s.buf...)
	s.buf = nil
	tmp := make([]byte, 65536)
	for {
		n, err := s.c.Read(tmp)
		out = append(out, tmp[:n]...)
		if err == io.EOF {
			return out, nil
		}
		if err != nil {
			return out, err
		}
	}
}

// closeWrite signals end of input the way a socket half-close does: the server reads EOF.
func (s *ctlSession) closeWrite() {
	if bc, ok := s.c.(*bufConn); ok {
		bc.w.mu.Lock()
		bc.w.closed = true
		bc.w.cond.Broadcast()
		bc.w.mu.Unlock()
	}
}

func (s *ctlSession) close() { s.c.Close() }

// ask opens a fresh session, sends one line and returns the first reply line.
func (e *ctlEnv) ask(line string) (string, error) {
	s, err := e.open()
	if err != nil {
		return "", err
	}
	defer s.close()
	if err := s.send([]byte(line + "\n")); err != nil {
		return "", err
	}
	return s.readLine(60 * time.Second)
}

func bubbleWait() { synctest.Wait() }

func controlsvcNew(n *netceptor.Netceptor) *controlsvc.Server { return controlsvc.New(true, n) }
