package harness

import (
	"bytes"
	"fmt"
	"os"
	"path/filepath"
	"strings"
	"testing"
	"testing/synctest"
	"time"

	"github.com/ansible/receptor/pkg/workceptor"
)

// C05 — work results stream exactly the output from any offset and end when complete.
//
// (a) local units: a scripted producer (real STDoutWriter / UpdateBasicStatus on real files) whose steps are
// placed on a time grid relative to the moment of asking; the reader is the real `work results` command.

type c05Case struct {
	Chunks []int // sizes of the producer's writes (empty: no output at all)
	Final  int   // final state written by the producer: 2 Succeeded, 3 Failed, 4 Canceled
	Slots  []int // time slot (x125 ms) of each producer step: create file, write 1..n, final status
	Ask    int   // time slot at which the results are requested
	Offset int   // start position
	NoFile bool  // the producer never creates the stdout file (unit finishes without output)
	SlowMs int   // every write of the control service to the client takes this long (a client that is slow to read)
	Early  int   // the final record (announcing the full size) is written before the last Early writes: the record is ahead of the stored output, as with the local copy of a remote unit
}

func (c c05Case) String() string {
	if c.SlowMs > 0 {
		return fmt.Sprintf("chunks=%v final=%d slots=%v ask=%d offset=%d nofile=%v client-takes-%dms-per-write", c.Chunks, c.Final, c.Slots, c.Ask, c.Offset, c.NoFile, c.SlowMs)
	}
	if c.Early > 0 {
		return fmt.Sprintf("chunks=%v final=%d slots=%v ask=%d offset=%d nofile=%v final-record-before-last-%d-writes", c.Chunks, c.Final, c.Slots, c.Ask, c.Offset, c.NoFile, c.Early)
	}
	return fmt.Sprintf("chunks=%v final=%d slots=%v ask=%d offset=%d nofile=%v", c.Chunks, c.Final, c.Slots, c.Ask, c.Offset, c.NoFile)
}

func c05Payload(sizes []int) [][]byte {
	var out [][]byte
	pos := 0
	for _, n := range sizes {
		b := make([]byte, n)
		for i := range b {
			b[i] = byte('a' + (pos+i)%26)
			if (pos+i)%64 == 63 {
				b[i] = '\n'
			}
		}
		pos += n
		out = append(out, b)
	}
	return out
}

type manualUnit struct {
	workceptor.BaseWorkUnit
}

func (u *manualUnit) Start() error             { go u.MonitorLocalStatus(); return nil }
func (u *manualUnit) Restart() error           { go u.MonitorLocalStatus(); return nil }
func (u *manualUnit) Cancel() error            { return nil }
func (u *manualUnit) Release(force bool) error { return u.BaseWorkUnit.Release(force) }

func runC05Case(t *testing.T, c c05Case) CaseOut {
	var out CaseOut
	out.Nontrivial = true
	bubble(t, func(t *testing.T) {
		e := newCtlEnv("n1", nil)
		defer e.close()
		e.addrNet = "unix"
		e.slowWrite = time.Duration(c.SlowMs) * time.Millisecond
		e.w.RegisterWorker("manual", func(_ workceptor.BaseWorkUnitForWorkUnit, w *workceptor.Workceptor, id, wt string) workceptor.WorkUnit {
			u := &manualUnit{}
			u.BaseWorkUnit.Init(w, id, wt, workceptor.FileSystem{}, stubWatcher{})
			return u
		}, false)
		u, err := e.w.AllocateUnit("manual", nil)
		if err != nil {
			out.violate("harness:c05-alloc", "%v", err)
			return
		}
		u.Start()
		u.UpdateBasicStatus(workceptor.WorkStateRunning, "running", 0)
		synctest.Wait() // the daemon's monitor has taken its first look at the status file before the producer moves
		chunks := c05Payload(c.Chunks)
		var full []byte
		for _, ch := range chunks {
			full = append(full, ch...)
		}
		// the producer's steps, in order
		var sw *workceptor.STDoutWriter
		steps := []func(){}
		if !c.NoFile {
			steps = append(steps, func() {
				sw, err = workceptor.NewStdoutWriter(workceptor.FileSystem{}, u.UnitDir())
				if err != nil {
					out.violate("harness:c05-stdout", "%v", err)
				}
			})
			for _, ch := range chunks {
				ch := ch
				steps = append(steps, func() {
					if c.Early > 0 {
						// the output arrives without the record being touched (the mirror appends to the file)
						if f, err := os.OpenFile(filepath.Join(u.UnitDir(), "stdout"), os.O_APPEND|os.O_WRONLY, 0o600); err == nil {
							f.Write(ch)
							f.Close()
						}
						return
					}
					if sw != nil {
						sw.Write(ch)
					}
				})
			}
		}
		steps = append(steps, func() {
			size := int64(0)
			if sw != nil {
				size = sw.Size()
			}
			if c.Early > 0 {
				size = int64(len(full))
			}
			// the producer is another process: it rewrites the status file, the daemon's monitor picks it up
			sfd := &workceptor.StatusFileData{}
			sfd.UpdateBasicStatus(filepath.Join(u.UnitDir(), "status"), c.Final, "done", size)
		})
		finalIdx := len(steps) - 1
		if c.Early > 0 && c.Early < len(steps)-1 {
			finalIdx = len(steps) - 1 - c.Early
			// move the final record in front of the last Early writes
			fin := steps[len(steps)-1]
			at := len(steps) - 1 - c.Early
			rest := append([]func(){}, steps[at:len(steps)-1]...)
			steps = append(append(steps[:at:at], fin), rest...)
		}
		if len(c.Slots) != len(steps) {
			out.violate("harness:c05-slots", "slots %v do not match %d steps", c.Slots, len(steps))
			return
		}
		var got []byte
		var hdr string
		ended := false
		var endedAt time.Duration
		asked := false
		start := time.Now()
		finalAt := time.Duration(-1)
		readerDone := make(chan struct{})
		ask := func() {
			asked = true
			go func() {
				defer close(readerDone)
				s, err := e.open()
				if err != nil {
					return
				}
				s.send([]byte(fmt.Sprintf("work results %s %d\n", u.ID(), c.Offset)))
				hdr, _ = s.readLine(120 * time.Second)
				if !strings.HasPrefix(hdr, "Streaming results") {
					ended = true
					endedAt = time.Since(start)
					return
				}
				data, err := s.readAll(240 * time.Second)
				got = data
				if err == nil {
					ended = true
					endedAt = time.Since(start)
				}
				s.close()
			}()
		}
		last := c.Ask
		for _, s := range c.Slots {
			if s > last {
				last = s
			}
		}
		si := 0
		for slot := 0; slot <= last; slot++ {
			// producer steps of this slot first, then the request (a request in the same slot sees them)
			for si < len(steps) && c.Slots[si] == slot {
				steps[si]()
				if si == finalIdx {
					finalAt = time.Since(start) // the final record is written (with Early > 0 the output is still behind it)
				}
				si++
			}
			if slot == c.Ask && !asked {
				ask()
			}
			time.Sleep(125 * time.Millisecond)
			synctest.Wait()
		}
		select {
		case <-readerDone:
		case <-time.After(300 * time.Second):
		}
		ctx := c.String()
		want := []byte{}
		if c.Offset <= len(full) {
			want = full[c.Offset:]
		}
		finished := c.Final == 2 || c.Final == 3 || c.Final == 4
		if !strings.HasPrefix(hdr, "Streaming results") {
			out.violate("results:refused", "%s: results were refused: %q", ctx, hdr)
		} else {
			if !bytes.Equal(got, want) {
				kind := "wrong-bytes"
				if len(got) < len(want) && bytes.Equal(got, want[:len(got)]) {
					kind = "ended-early"
				} else if len(got) > len(want) {
					kind = "extra-bytes"
				}
				out.violate("results:"+kind, "%s: received %d bytes %q, output[%d:] is %d bytes %q", ctx, len(got), trunc(string(got), 40), c.Offset, len(want), trunc(string(want), 40))
			}
			if finished && !ended {
				out.violate(fmt.Sprintf("results:stream-never-ends:final=%d", c.Final), "%s: the unit finished (state %d) at %v but the result stream was still open 240 s later", ctx, c.Final, finalAt)
			}
			if ended && finalAt >= 0 && endedAt < finalAt {
				out.violate("results:ended-before-unit-finished", "%s: stream ended at %v, the unit finished at %v", ctx, endedAt, finalAt)
			}
			if ended && finalAt >= 0 && endedAt > finalAt+10*time.Second && endedAt > time.Duration(c.Ask)*125*time.Millisecond+10*time.Second {
				out.violate("results:ended-late", "%s: stream ended at %v, the unit finished at %v", ctx, endedAt, finalAt)
			}
		}
		out.Outcome = fmt.Sprintf("chunks=%d final=%d nofile=%v", len(c.Chunks), c.Final, c.NoFile)
		os.RemoveAll(u.UnitDir())
	})
	return out
}

// monotone assignments of k steps to slots 0..s
func monotoneSlots(k, s int) [][]int {
	var res [][]int
	var rec func(cur []int, min int)
	rec = func(cur []int, min int) {
		if len(cur) == k {
			res = append(res, append([]int{}, cur...))
			return
		}
		for v := min; v <= s; v++ {
			rec(append(cur, v), v)
		}
	}
	rec(nil, 0)
	return res
}

func runC05(w *W) {
	type outp struct {
		chunks []int
		nofile bool
	}
	outs := []outp{{nil, false}, {nil, true}, {[]int{10}, false}, {[]int{5, 7}, false}}
	if w.Thorough() {
		outs = append(outs, outp{[]int{3, 4, 5}, false})
	}
	maxSlot := 4
	if w.Thorough() {
		maxSlot = 5
	}
	for _, o := range outs {
		total := 0
		for _, n := range o.chunks {
			total += n
		}
		nsteps := 1
		if !o.nofile {
			nsteps = 2 + len(o.chunks)
		}
		offsets := []int{0}
		for p := 1; p <= total; p++ {
			offsets = append(offsets, p)
		}
		for _, final := range []int{2, 3, 4} {
			for _, slots := range monotoneSlots(nsteps, maxSlot) {
				for ask := 0; ask <= maxSlot+1; ask++ {
					for _, off := range offsets {
						if !w.Thorough() && off != 0 && off != total && off != total/2 && (ask+off+slots[0])%3 != 0 {
							continue
						}
						if final != 2 && !w.Thorough() && (ask+slots[len(slots)-1])%2 == 1 {
							continue
						}
						c := c05Case{Chunks: o.chunks, Final: final, Slots: slots, Ask: ask, Offset: off, NoFile: o.nofile}
						w.Case(c.String(), func() CaseOut {
							r := runC05Case(w.T, c)
							if ask == 2 && off == 0 && final == 2 && len(o.chunks) == 2 && slots[0] == 1 && slots[len(slots)-1] == 4 {
								r.Sample = map[string]any{"case": c.String(), "outcome": r.Outcome}
							}
							return r
						})
					}
				}
			}
		}
	}
	// a client that is slow to take what it is sent, while the unit is still writing
	for _, chunks := range [][]int{{5, 7}, {3, 4, 5}, {9, 2, 6}} {
		n := 2 + len(chunks)
		for _, slots := range [][]int{seqSlots(n), evenSlots(n, 2), evenSlots(n, 3)} {
			for _, slow := range []int{300, 400, 700} {
				for _, off := range []int{0, 2} {
					c := c05Case{Chunks: chunks, Final: 2, Slots: slots, Ask: 0, Offset: off, SlowMs: slow}
					w.Case(c.String(), func() CaseOut { return runC05Case(w.T, c) })
				}
			}
		}
	}
	// the final record is ahead of the stored output (status mirrored before the output, as for remote units)
	for _, final := range []int{2, 3, 4} {
		for _, early := range []int{1, 2} {
			// (the daemon notices a rewritten record within a second: the last writes come 1.5-2.5 s after the record)
			for _, slots := range [][]int{{0, 1, 2, 14}, {0, 0, 2, 22}, {0, 1, 1, 16}, {1, 2, 4, 20}} {
				if early == 2 {
					slots = []int{slots[0], slots[1], slots[1] + 12, slots[3] + 8}
				}
				for _, ask := range []int{0, 2, 10, 13} {
					for _, off := range []int{0, 5, 8, 12} {
						c := c05Case{Chunks: []int{5, 7}, Final: final, Slots: slots, Ask: ask, Offset: off, Early: early}
						w.Case(c.String(), func() CaseOut { return runC05Case(w.T, c) })
					}
				}
			}
		}
	}
	// outputs that cross the 64 KiB read buffer: fewer interleavings, boundary offsets
	big := [][]int{{65536}, {65535, 2}, {70000, 70000}, {1, 65536, 1}}
	for _, chunks := range big {
		total := 0
		for _, n := range chunks {
			total += n
		}
		nsteps := 2 + len(chunks)
		for _, slots := range [][]int{make([]int, nsteps), seqSlots(nsteps)} {
			for _, ask := range []int{0, nsteps / 2, nsteps + 1} {
				for _, off := range []int{0, 1, 65535, 65536, 65537, total - 1, total} {
					if off > total {
						continue
					}
					c := c05Case{Chunks: chunks, Final: 2, Slots: slots, Ask: ask, Offset: off}
					w.Case("big "+c.String(), func() CaseOut { return runC05Case(w.T, c) })
				}
			}
		}
	}
}

func evenSlots(n, step int) []int {
	s := make([]int, n)
	for i := range s {
		s[i] = i * step
	}
	return s
}

func seqSlots(n int) []int {
	s := make([]int, n)
	for i := range s {
		s[i] = i
	}
	return s
}

func init() {
	register(&PropSpec{
		ID:        "C05",
		Level:     "model_checking",
		Technique: "exhaustive enumeration of the timing of a scripted producer's steps (real STDoutWriter and status rewrites) against the real `work results` reader in a synctest bubble: every monotone placement of the steps and of the request on a 125 ms grid (half the reader's poll period), every start offset; remote units: two real daemons joined through a harness-owned TCP relay, the link cut (or the remote daemon killed and restarted) at every position of a time grid while `work results` is asked early or late on the submitting node",
		Rule: "outputs {none (no file), empty file, one chunk, two chunks (thorough: three)} x final state {Succeeded, Failed, Canceled} x every monotone assignment of the producer's steps (create file, write i, final status) to slots 0..4 (thorough 0..5) x request slot 0..5 x start offset 0..size (quick: 0, size/2, size and a third of the others); outputs crossing the 64 KiB read buffer with boundary offsets; a client that takes 300/400/700 ms per write while the unit is still producing; the final record (announcing the full size) written before the last 1-2 writes, for every final state (the record is ahead of the stored output, as with the local copy of a remote unit); remote: unit {cat, chatty (4 lines, 0.3 s apart)} submitted by n1 to n2, fault {none, link cut for 0.7 s / 3.5 s, n2 killed and restarted after 0.8 s} at 0..3000 ms step 600 (thorough 300) after the acknowledgement x request at 0.1 s / 8 s x offset {0, 7}, with a second request from 0 afterwards; unit ticker (8 lines, 0.5 s apart) with n2 restarted at 600..5400 ms and the link cut for 35 s (longer than the stream's idle limit) so that the mirror must connect again with part of the output stored. " +
			"Every case is a distinct (output, timing, offset); all non-trivial. Oracle: bytes received = output[offset:], the stream ends, not before the final state was recorded and within 10 virtual seconds after it.",
		Assumptions: []string{"remote cases run in real time (one process per case): the grid positions are approximate, no oracle depends on an interval shorter than 60 s", "virtual time: the reader's 250/500 ms polls and the producer's steps interleave on a 125 ms grid; finer phase differences are not explored", "Canceled counts as finished (C13's stage order)"},
		Run:         runC05,
		Exec:        execC05,
		Coord:       coordC05,
		CaseTimeout: 200 * time.Second,
	})
}
