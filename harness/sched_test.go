package harness

import (
	"bytes"
	"fmt"
	"runtime"
	"strconv"
	"strings"
	"sync"
	"time"

	"github.com/ansible/receptor/pkg/verifhook"
)

// schedx: a cooperative scheduler over verifhook points (DESIGN §3.3).
//
// Every participating thread is a goroutine of this process; it runs only between two hook points
// and only when the explorer releases it. The scheduler models the two kinds of locks the status-file
// code uses — the advisory lock file (one per status file, exclusive, also between "processes") and the
// in-memory RWMutex of a BaseWorkUnit — from the points themselves, so a thread that would block is
// simply not enabled. "No enabled thread while some are unfinished" is a dead-lock.

type schedThread struct {
	id       int
	name     string
	resume   chan struct{}
	point    string   // where it is parked
	args     []string //
	finished bool
	started  bool
	extBlock bool // resumed but silent: blocked on a lock that has no hook points
	body     func()
}

type schedEvent struct {
	tid      int
	point    string
	args     []string
	finished bool
}

type scheduler struct {
	threads  []*schedThread
	byGID    map[int64]*schedThread
	mu       sync.Mutex
	events   chan schedEvent
	fileLock map[string]int   // status file -> owner thread (flock on <file>.lock)
	memW     map[string]int   // unit -> writer thread
	memR     map[string][]int // unit -> reader threads
	trace    []string
	tryBlocked  bool // also offer (at the price of a deviation) to resume a thread that the in-memory lock MODEL says is blocked: the model is derived from hook points, the real lock decides
	modelBroken bool // a thread got past an in-memory lock point although the model said the lock was held: from then on only the real lock decides
	extQuiet time.Duration                                     // >0: a resumed thread that stays silent this long is taken to be blocked on an unhooked lock
	onPoint  func(t *schedThread, point string, args []string) // observer called when a thread reaches a point (in scheduler context)
}

func goid() int64 {
	var buf [64]byte
	n := runtime.Stack(buf[:], false)
	f := bytes.Fields(buf[:n])
	id, _ := strconv.ParseInt(string(f[1]), 10, 64)
	return id
}

func newScheduler() *scheduler {
	return &scheduler{byGID: map[int64]*schedThread{}, events: make(chan schedEvent), fileLock: map[string]int{}, memW: map[string]int{}, memR: map[string][]int{}}
}

func (s *scheduler) add(name string, body func()) {
	t := &schedThread{id: len(s.threads), name: name, resume: make(chan struct{}), body: body}
	s.threads = append(s.threads, t)
}

// handler is installed as verifhook.Handler while a schedule runs.
func (s *scheduler) handler(point string, args []string) {
	s.mu.Lock()
	t := s.byGID[goid()]
	s.mu.Unlock()
	if t == nil {
		return // not one of ours
	}
	s.events <- schedEvent{tid: t.id, point: point, args: args}
	<-t.resume
}

func (s *scheduler) launch(t *schedThread) {
	go func() {
		s.mu.Lock()
		s.byGID[goid()] = t
		s.mu.Unlock()
		s.events <- schedEvent{tid: t.id, point: "start"}
		<-t.resume
		t.body()
		s.events <- schedEvent{tid: t.id, finished: true}
	}()
}

// enabled: may the thread be resumed from the point where it is parked without blocking for real?
func (s *scheduler) enabled(t *schedThread) bool {
	if t.finished || t.extBlock {
		return false
	}
	arg := ""
	if len(t.args) > 0 {
		arg = t.args[0]
	}
	switch t.point {
	case "lock.before":
		if s.modelBroken {
			return true
		}
		_, held := s.fileLock[arg]
		return !held
	case "mem.lock.before":
		if s.modelBroken {
			return true
		}
		_, w := s.memW[arg]
		return !w && len(s.memR[arg]) == 0
	case "mem.rlock.before":
		if s.modelBroken {
			return true
		}
		_, w := s.memW[arg]
		return !w
	}
	return true
}

// memBlocked: parked at an in-memory lock point that the model considers held
func (s *scheduler) memBlocked(t *schedThread) bool {
	if t.finished || t.extBlock {
		return false
	}
	return (t.point == "mem.lock.before" || t.point == "mem.rlock.before" || t.point == "lock.before") && !s.enabled(t)
}

// applyPoint updates the lock model when a thread *leaves* a point (is resumed from it) or reaches one.
func (s *scheduler) reached(t *schedThread, point string, args []string) {
	arg := ""
	if len(args) > 0 {
		arg = args[0]
	}
	switch point {
	case "lock.acquired":
		s.fileLock[arg] = t.id
	case "lock.released":
		if s.fileLock[arg] == t.id {
			delete(s.fileLock, arg)
		}
	case "mem.lock.released":
		if s.memW[arg] == t.id {
			delete(s.memW, arg)
		}
	case "mem.rlock.released":
		rs := s.memR[arg]
		for i, x := range rs {
			if x == t.id {
				s.memR[arg] = append(rs[:i:i], rs[i+1:]...)
				break
			}
		}
	}
}

func (s *scheduler) leaving(t *schedThread) {
	arg := ""
	if len(t.args) > 0 {
		arg = t.args[0]
	}
	switch t.point {
	case "mem.lock.before":
		s.memW[arg] = t.id
	case "mem.rlock.before":
		s.memR[arg] = append(s.memR[arg], t.id)
	}
}

type schedResult struct {
	deadlock bool
	stuck    string
	trace    []string
}

// run executes one schedule under the explorer: at every point where more than one thread is enabled
// the explorer chooses (default: keep running the current thread).
func (s *scheduler) run(r *xrun) schedResult {
	verifhook.Handler = s.handler
	defer func() { verifhook.Handler = nil }()
	for _, t := range s.threads {
		s.launch(t)
		ev := <-s.events
		s.threads[ev.tid].point = ev.point
	}
	cur := -1
	for {
		var en []*schedThread
		unfinished := 0
		for _, t := range s.threads {
			if !t.finished {
				unfinished++
			}
			if s.enabled(t) {
				en = append(en, t)
			}
		}
		if unfinished == 0 {
			return schedResult{trace: s.trace}
		}
		if len(en) == 0 {
			// threads blocked on unhooked locks may still be on their way to the next point
			waiting := false
			for _, t := range s.threads {
				if t.extBlock && !t.finished {
					waiting = true
				}
			}
			if waiting {
				select {
				case ev := <-s.events:
					s.process(ev)
					continue
				case <-time.After(3 * time.Second):
				}
			}
			var st []string
			for _, t := range s.threads {
				if !t.finished {
					st = append(st, fmt.Sprintf("%s@%s%v", t.name, t.point, t.args))
				}
			}
			return schedResult{deadlock: true, stuck: strings.Join(st, " "), trace: s.trace}
		}
		// canonical order: the running thread first if still enabled, then ascending ids
		var opts []string
		byLabel := map[string]*schedThread{}
		curEnabled := false
		for _, t := range en {
			if t.id == cur {
				curEnabled = true
			}
		}
		if curEnabled {
			opts = append(opts, s.threads[cur].name)
			byLabel[s.threads[cur].name] = s.threads[cur]
		}
		for _, t := range en {
			if t.id != cur {
				opts = append(opts, t.name)
				byLabel[t.name] = t
			}
		}
		trying := false
		if s.tryBlocked && s.extQuiet > 0 {
			for _, t := range s.threads {
				if s.memBlocked(t) {
					opts = append(opts, t.name+"!")
					byLabel[t.name+"!"] = t
				}
			}
		}
		var pick *schedThread
		if len(opts) == 1 {
			pick = byLabel[opts[0]]
		} else if !curEnabled {
			// the running thread blocked or finished: switching is not a preemption; still an explored choice,
			// but free of charge (xrun counts only non-default picks, so offer it as its own point kind)
			pick = byLabel[r.chooseFree(opts)]
		} else {
			pick = byLabel[r.choose(opts)]
		}
		// (which label was taken: an optimistic attempt does not update the lock model)
		if s.tryBlocked && s.memBlocked(pick) {
			trying = true
		} else {
			s.leaving(pick)
		}
		s.trace = append(s.trace, pick.name+"@"+pick.point)
		cur = pick.id
		r.steps++
		pick.resume <- struct{}{}
		quiet := 20 * time.Second
		if s.extQuiet > 0 {
			quiet = s.extQuiet
		}
		for waitFor := pick.id; waitFor >= 0; {
			select {
			case ev := <-s.events:
				if trying && ev.tid == pick.id {
					// it got through although the hook points say another thread is inside: the model no longer holds
					s.modelBroken = true
					s.trace = append(s.trace, "(model: "+pick.name+" passed a lock point that the hook points say is held)")
				}
				s.process(ev)
				if ev.tid == waitFor {
					waitFor = -1
				}
			case <-time.After(quiet):
				if s.extQuiet > 0 {
					pick.extBlock = true
					pick.point = "(blocked on an unhooked lock)"
					waitFor = -1
				} else {
					return schedResult{deadlock: true, stuck: fmt.Sprintf("thread %s did not reach the next hook point within 20 s after %s", pick.name, pick.point), trace: s.trace}
				}
			}
		}
	}
}

func (s *scheduler) process(ev schedEvent) {
	t := s.threads[ev.tid]
	t.extBlock = false
	if ev.finished {
		t.finished = true
		t.point = "done"
		return
	}
	t.point, t.args = ev.point, ev.args
	s.reached(t, ev.point, ev.args)
	if s.onPoint != nil {
		s.onPoint(t, ev.point, ev.args)
	}
}

// abandon lets parked threads of an aborted schedule run to completion on their own (no hooks).
func (s *scheduler) abandon() {
	verifhook.Handler = nil
	for _, t := range s.threads {
		if !t.finished {
			select {
			case t.resume <- struct{}{}:
			default:
			}
		}
	}
}
