package harness

import (
	"bufio"
	"crypto/sha256"
	"encoding/hex"
	"encoding/json"
	"fmt"
	"io"
	"os"
	"os/exec"
	"path/filepath"
	"regexp"
	"runtime"
	"runtime/debug"
	"sort"
	"strconv"
	"strings"
	"sync"
	"syscall"
	"testing"
	"testing/synctest"
	"time"
)

// ---------------------------------------------------------------------------------------------
// Protocol between coordinator and worker processes.

// Job is one unit of work handed to a worker process (one JSON line on its stdin).
type Job struct {
	Prop    string          `json:"prop"`
	Tier    string          `json:"tier"`
	Kind    string          `json:"kind"` // "shard": enumerate a slice of the case space; "exec": run Args once
	Shard   int             `json:"shard"`
	NShards int             `json:"nshards"`
	SkipTo  int             `json:"skipto"` // resume after a crash: skip case indices < SkipTo
	Only    string          `json:"only"`   // replay: run only the case with this id
	Args    json.RawMessage `json:"args,omitempty"`
	Seed    int64           `json:"seed"`
}

// Violation is one oracle failure. Key identifies the *kind* of failure (used for known findings).
type Violation struct {
	Key string `json:"key"`
	Msg string `json:"msg"`
}

// CaseOut is what one explored case (input, sequence, schedule, execution) reports.
type CaseOut struct {
	Viol       []Violation     `json:"viol,omitempty"`
	Nontrivial bool            `json:"nt,omitempty"`
	Outcome    string          `json:"outcome,omitempty"`
	Sample     any             `json:"sample,omitempty"`
	Counters   map[string]int  `json:"ctr,omitempty"`
	Extra      json.RawMessage `json:"extra,omitempty"`
}

func (o *CaseOut) violate(key, format string, a ...any) {
	o.Viol = append(o.Viol, Violation{Key: key, Msg: fmt.Sprintf(format, a...)})
}

func (o *CaseOut) count(name string, n int) {
	if o.Counters == nil {
		o.Counters = map[string]int{}
	}
	o.Counters[name] += n
}

// PropSpec describes the check of one property.
type PropSpec struct {
	ID          string
	Level       string // evidence level
	Technique   string
	Rule        string                                   // how cases are enumerated, what is non-trivial
	Assumptions []string                                 // trusted base
	Run         func(w *W)                               // worker side, Kind "shard": enumerates cases through w.Case
	Exec        func(w *W, args json.RawMessage) CaseOut // worker side, Kind "exec"
	Coord       func(c *Coord)                           // optional custom coordinator (default: shard coordinator over Run)
	CaseTimeout time.Duration                            // real-time watchdog per case (default 60 s)
	Workers     int                                      // default: 16
	OneShot     bool                                     // one process per case (cases leave through os.Exit)
	NoFailFast  bool                                     // real-time checks: a first violation may be a timing artefact, do not cut the run short
}

var props = map[string]*PropSpec{}

func register(p *PropSpec) { props[p.ID] = p }

// ---------------------------------------------------------------------------------------------
// Worker side.

// W is the worker-side context of one job.
type W struct {
	T     *testing.T
	Job   Job
	idx   int
	proto *bufio.Writer
}

func (w *W) Thorough() bool { return w.Job.Tier == "thorough" }

// Beat tells the coordinator's watchdog that the current case is making progress.
func (w *W) Beat() {
	fmt.Fprintf(w.proto, "H\n")
	w.proto.Flush()
}

// Case runs f as case number idx of the enumeration if it belongs to this worker's shard.
// A panic in the calling goroutine is reported as a violation of the case (the worker survives);
// a panic in any other goroutine kills the worker and is attributed to the case by the coordinator.
func (w *W) Case(id string, f func() CaseOut) {
	idx := w.idx
	w.idx++
	if w.Job.Only != "" {
		if id != w.Job.Only {
			return
		}
	} else {
		if w.Job.NShards > 1 && idx%w.Job.NShards != w.Job.Shard {
			return
		}
		if idx < w.Job.SkipTo {
			return
		}
	}
	idj, _ := json.Marshal(id)
	fmt.Fprintf(w.proto, "B %d %s\n", idx, idj)
	w.proto.Flush()
	out := runRecover(f)
	b, err := json.Marshal(out)
	if err != nil {
		b, _ = json.Marshal(CaseOut{Viol: []Violation{{Key: "harness:marshal", Msg: err.Error()}}})
	}
	fmt.Fprintf(w.proto, "E %d %s\n", idx, b)
	w.proto.Flush()
}

var repoFrameRe = regexp.MustCompile(`github\.com/ansible/receptor/(pkg|cmd|internal)/[^\s(]+(\([^)]*\))?[.\w]*`)

// panicKey builds a stable key from a panic value and stack: message class + first repository frame.
func panicKey(msg string, stack string) string {
	m := normalizePanic(msg)
	frame := ""
	for _, l := range strings.Split(stack, "\n") {
		l = strings.TrimSpace(l)
		if strings.HasPrefix(l, "github.com/ansible/receptor/") {
			if i := strings.LastIndex(l, "("); i > 0 {
				l = l[:i]
			}
			frame = strings.TrimPrefix(l, "github.com/ansible/receptor/")
			break
		}
	}
	return "panic:" + m + "@" + frame
}

var numRe = regexp.MustCompile(`\b0x[0-9a-f]+\b|\b\d+\b`)

func normalizePanic(msg string) string {
	msg = strings.TrimSpace(msg)
	if i := strings.Index(msg, "\n"); i >= 0 {
		msg = msg[:i]
	}
	msg = strings.TrimPrefix(msg, "panic: ")
	msg = numRe.ReplaceAllString(msg, "N")
	if len(msg) > 100 {
		msg = msg[:100]
	}
	return msg
}

func runRecover(f func() CaseOut) (out CaseOut) {
	defer func() {
		if r := recover(); r != nil {
			if strings.Contains(fmt.Sprint(r), "main bubble goroutine has exited but blocked goroutines remain") {
				// goroutines of the system under test that never end (counted; the leak itself is C17's subject)
				out.count("bubbles_left_with_blocked_goroutines", 1)
				return
			}
			st := string(debug.Stack())
			out.Viol = append(out.Viol, Violation{Key: panicKey(fmt.Sprint(r), st), Msg: fmt.Sprintf("panic in calling goroutine: %v\n%s", r, trimStack(st, 30))})
		}
	}()
	return f()
}

func trimStack(s string, lines int) string {
	l := strings.Split(s, "\n")
	if len(l) > lines {
		l = l[:lines]
	}
	return strings.Join(l, "\n")
}

// TestWorker is the worker process entry: jobs on stdin, protocol on fd 3.
func TestWorker(t *testing.T) {
	if os.Getenv("VERIF_WORKER") == "" {
		t.Skip("not a worker")
	}
	pf := os.NewFile(3, "proto")
	if pf == nil {
		t.Fatal("no protocol fd")
	}
	pw := bufio.NewWriter(pf)
	in := bufio.NewReaderSize(os.Stdin, 1<<20)
	for {
		line, err := in.ReadBytes('\n')
		if len(line) > 1 {
			var job Job
			if jerr := json.Unmarshal(line, &job); jerr != nil {
				fmt.Fprintf(pw, "X bad job: %v\n", jerr)
				pw.Flush()
				os.Exit(3)
			}
			spec := props[job.Prop]
			if spec == nil {
				fmt.Fprintf(pw, "X unknown property %s\n", job.Prop)
				pw.Flush()
				os.Exit(3)
			}
			w := &W{T: t, Job: job, proto: pw}
			switch job.Kind {
			case "shard":
				spec.Run(w)
			case "exec":
				fmt.Fprintf(pw, "B 0 \"exec\"\n")
				pw.Flush()
				out := runRecover(func() CaseOut { return spec.Exec(w, job.Args) })
				b, _ := json.Marshal(out)
				fmt.Fprintf(pw, "E 0 %s\n", b)
			}
			fmt.Fprintf(pw, "D\n")
			pw.Flush()
		}
		if err != nil {
			break
		}
	}
	os.Exit(0)
}

// ---------------------------------------------------------------------------------------------
// Coordinator side.

type wmsg struct {
	kind byte // 'B','E','D','X', 0 = EOF
	idx  int
	data []byte
}

type workerProc struct {
	cmd     *exec.Cmd
	stdin   io.WriteCloser
	msgs    chan wmsg
	logPath string
	n       int
}

var workerSeq int
var workerSeqMu sync.Mutex

func scratchDir() string {
	d := os.Getenv("VERIF_SCRATCH")
	if d == "" {
		d = filepath.Join(os.TempDir(), "verif-scratch")
	}
	os.MkdirAll(d, 0o755)
	return d
}

func startWorker(extraEnv ...string) (*workerProc, error) {
	workerSeqMu.Lock()
	workerSeq++
	n := workerSeq
	workerSeqMu.Unlock()
	pr, pw, err := os.Pipe()
	if err != nil {
		return nil, err
	}
	logPath := filepath.Join(scratchDir(), fmt.Sprintf("worker-%d-%d.log", os.Getpid(), n))
	logf, err := os.Create(logPath)
	if err != nil {
		return nil, err
	}
	cmd := exec.Command(os.Args[0], "-test.run", "^TestWorker$", "-test.timeout", "0")
	cmd.Env = append(os.Environ(), "VERIF_WORKER=1", "GOTRACEBACK=all")
	if os.Getenv("VERIF_WORKER_GOMAXPROCS") != "" {
		cmd.Env = append(cmd.Env, "GOMAXPROCS="+os.Getenv("VERIF_WORKER_GOMAXPROCS"))
	} else {
		cmd.Env = append(cmd.Env, "GOMAXPROCS=2")
	}
	cmd.Env = append(cmd.Env, extraEnv...)
	cmd.Stdout = logf
	cmd.Stderr = logf
	cmd.ExtraFiles = []*os.File{pw}
	cmd.SysProcAttr = &syscall.SysProcAttr{Setpgid: true, Pdeathsig: syscall.SIGKILL}
	stdin, err := cmd.StdinPipe()
	if err != nil {
		return nil, err
	}
	if err := cmd.Start(); err != nil {
		return nil, err
	}
	pw.Close()
	logf.Close()
	wp := &workerProc{cmd: cmd, stdin: stdin, msgs: make(chan wmsg, 1024), logPath: logPath, n: n}
	go func() {
		r := bufio.NewReaderSize(pr, 1<<20)
		for {
			line, err := r.ReadBytes('\n')
			if len(line) > 1 {
				line = line[:len(line)-1]
				m := wmsg{kind: line[0]}
				rest := line[1:]
				if len(rest) > 0 && rest[0] == ' ' {
					rest = rest[1:]
				}
				if m.kind == 'B' || m.kind == 'E' {
					sp := strings.IndexByte(string(rest), ' ')
					if sp > 0 {
						m.idx, _ = strconv.Atoi(string(rest[:sp]))
						m.data = append([]byte(nil), rest[sp+1:]...)
					}
				} else {
					m.data = append([]byte(nil), rest...)
				}
				wp.msgs <- m
			}
			if err != nil {
				break
			}
		}
		pr.Close()
		wp.msgs <- wmsg{kind: 0}
	}()
	return wp, nil
}

func (wp *workerProc) send(j Job) error {
	b, _ := json.Marshal(j)
	b = append(b, '\n')
	_, err := wp.stdin.Write(b)
	return err
}

// kill ends the worker and its process group; with dump it first asks for a goroutine dump.
func (wp *workerProc) kill(dump bool) {
	if wp.cmd.Process == nil {
		return
	}
	if dump {
		_ = wp.cmd.Process.Signal(syscall.SIGQUIT)
		done := make(chan struct{})
		go func() { wp.cmd.Wait(); close(done) }()
		select {
		case <-done:
		case <-time.After(5 * time.Second):
		}
	}
	_ = syscall.Kill(-wp.cmd.Process.Pid, syscall.SIGKILL)
	_ = wp.cmd.Process.Kill()
	go wp.cmd.Wait()
	wp.stdin.Close()
}

func (wp *workerProc) logTail(max int) string {
	b, err := os.ReadFile(wp.logPath)
	if err != nil {
		return ""
	}
	if len(b) > max {
		b = b[len(b)-max:]
	}
	return string(b)
}

func (wp *workerProc) fullLog() string {
	b, _ := os.ReadFile(wp.logPath)
	return string(b)
}

func (wp *workerProc) cleanup() { os.Remove(wp.logPath) }

// classifyCrash derives a violation key from the log of a dead or hung worker.
func classifyCrash(log string, hung bool) (key, msg string) {
	lines := strings.Split(log, "\n")
	if hung {
		// find goroutines blocked on a mutex inside the repository or quic-go: a lock-order dead-lock
		var sites []string
		blocks := strings.Split(log, "\n\n")
		for _, b := range blocks {
			if !strings.Contains(b, "sync.(*Mutex).Lock") && !strings.Contains(b, "sync.(*RWMutex).Lock") && !strings.Contains(b, "sync.(*RWMutex).RLock") && !strings.Contains(b, "sync.Mutex.Lock") && !strings.Contains(b, "sync.(*Once).doSlow") {
				continue
			}
			for _, l := range strings.Split(b, "\n") {
				l = strings.TrimSpace(l)
				if strings.HasPrefix(l, "github.com/ansible/receptor/") || strings.HasPrefix(l, "github.com/quic-go/quic-go") {
					if i := strings.LastIndex(l, "("); i > 0 {
						l = l[:i]
					}
					l = strings.TrimPrefix(l, "github.com/ansible/receptor/")
					l = strings.TrimPrefix(l, "github.com/quic-go/")
					sites = append(sites, l)
					break
				}
			}
		}
		sort.Strings(sites)
		sites = uniq(sites)
		if len(sites) > 0 {
			if len(sites) > 4 {
				sites = sites[:4]
			}
			return "hang:lock:" + strings.Join(sites, "|"), "no progress; goroutines waiting on locks at: " + strings.Join(sites, ", ")
		}
		return "hang:unclassified", "no progress within the watchdog time"
	}
	for i, l := range lines {
		if strings.HasPrefix(l, "panic: ") || strings.HasPrefix(l, "fatal error: ") {
			rest := strings.Join(lines[i:], "\n")
			k := panicKey(l, rest)
			if strings.HasPrefix(l, "fatal error: ") {
				k = "fatal:" + strings.TrimPrefix(k, "panic:")
			}
			end := i + 40
			if end > len(lines) {
				end = len(lines)
			}
			return k, strings.Join(lines[i:end], "\n")
		}
	}
	tail := log
	if len(tail) > 2000 {
		tail = tail[len(tail)-2000:]
	}
	return "crash:unclassified", "worker died: " + tail
}

func uniq(s []string) []string {
	var o []string
	for i, x := range s {
		if i == 0 || x != s[i-1] {
			o = append(o, x)
		}
	}
	return o
}

// ---- aggregation -------------------------------------------------------------------------------

type foundViolation struct {
	Key    string          `json:"key"`
	Msg    string          `json:"msg"`
	CaseID string          `json:"case_id"`
	Args   json.RawMessage `json:"args,omitempty"`
	Count  int             `json:"count"`
	Alts   []altCase       `json:"-"`
}

// Coord is the coordinator context of one check run.
type Coord struct {
	Spec  *PropSpec
	Tier  string
	Seed  int64
	start time.Time

	mu          sync.Mutex
	evaluations int
	nontrivial  int
	outcomes    map[string]int
	counters    map[string]int
	samples     []any
	viol        map[string]*foundViolation // by key
	violOrder   []string
	states      int
	transitions int
	exhaustive  bool
	notes       []string
	extraCov    map[string]any
	infraErrors []string
	findings    []finding
	stopFlag    bool // set when a violation that is not a known finding was recorded: fail fast
}

func (c *Coord) stopped() bool {
	c.mu.Lock()
	defer c.mu.Unlock()
	return c.stopFlag
}

func (c *Coord) Thorough() bool { return c.Tier == "thorough" }

func (c *Coord) note(format string, a ...any) {
	c.mu.Lock()
	c.notes = append(c.notes, fmt.Sprintf(format, a...))
	c.mu.Unlock()
}

func (c *Coord) setCov(k string, v any) {
	c.mu.Lock()
	if c.extraCov == nil {
		c.extraCov = map[string]any{}
	}
	c.extraCov[k] = v
	c.mu.Unlock()
}

func (c *Coord) record(caseID string, args json.RawMessage, out CaseOut) {
	c.mu.Lock()
	defer c.mu.Unlock()
	c.evaluations++
	if out.Nontrivial {
		c.nontrivial++
	}
	if out.Outcome != "" {
		c.outcomes[out.Outcome]++
	}
	for k, v := range out.Counters {
		c.counters[k] += v
	}
	if out.Sample != nil && len(c.samples) < 6 {
		c.samples = append(c.samples, out.Sample)
	}
	for _, v := range out.Viol {
		fv := c.viol[v.Key]
		if knownFinding(c.findings, c.Spec.ID, v.Key) == nil && os.Getenv("VERIF_NOFAILFAST") == "" && !c.Spec.NoFailFast && !strings.HasPrefix(v.Key, "harness:") {
			c.stopFlag = true
		}
		if fv == nil {
			fv = &foundViolation{Key: v.Key, Msg: v.Msg, CaseID: caseID, Args: args}
			c.viol[v.Key] = fv
			c.violOrder = append(c.violOrder, v.Key)
		}
		fv.Count++
		if fv.CaseID != caseID && len(fv.Alts) < 6 {
			dup := false
			for _, a := range fv.Alts {
				if a.CaseID == caseID {
					dup = true
				}
			}
			if !dup {
				fv.Alts = append(fv.Alts, altCase{CaseID: caseID, Args: args, Msg: v.Msg})
			}
		}
	}
}

// altCase is another case that failed with the same key; if the first one does not reproduce, these are tried.
type altCase struct {
	CaseID string
	Args   json.RawMessage
	Msg    string
}

func (c *Coord) infra(format string, a ...any) {
	c.mu.Lock()
	c.infraErrors = append(c.infraErrors, fmt.Sprintf(format, a...))
	c.mu.Unlock()
}

// runShards is the default coordinator: N worker processes each enumerate their slice of the case space.
func (c *Coord) runShards() {
	n := c.Spec.Workers
	if n == 0 {
		n = 16
	}
	if s := os.Getenv("VERIF_WORKERS"); s != "" {
		n, _ = strconv.Atoi(s)
	}
	var wg sync.WaitGroup
	for i := 0; i < n; i++ {
		wg.Add(1)
		go func(i int) {
			defer wg.Done()
			c.runShard(Job{Prop: c.Spec.ID, Tier: c.Tier, Kind: "shard", Shard: i, NShards: n, Seed: c.Seed})
		}(i)
	}
	wg.Wait()
}

func (c *Coord) caseTimeout() time.Duration {
	if c.Spec.CaseTimeout > 0 {
		return c.Spec.CaseTimeout
	}
	return 60 * time.Second
}

// runShard drives one shard job to completion, restarting the worker after crashes and hangs.
// It returns the outputs by case id when collect is set (used for replays).
func (c *Coord) runShard(job Job) {
	restarts := 0
	for {
		wp, err := startWorker()
		if err != nil {
			c.infra("cannot start worker: %v", err)
			return
		}
		if err := wp.send(job); err != nil {
			c.infra("cannot send job: %v", err)
			wp.kill(false)
			wp.cleanup()
			return
		}
		curIdx, curID := -1, ""
		lastIdx := job.SkipTo - 1
		done := false
		stoppedEarly := false
		timer := time.NewTimer(c.caseTimeout() + 60*time.Second)
	loop:
		for {
			select {
			case m := <-wp.msgs:
				if !timer.Stop() {
					select {
					case <-timer.C:
					default:
					}
				}
				timer.Reset(c.caseTimeout())
				if c.stopped() && job.Only == "" {
					stoppedEarly = true
					break loop
				}
				switch m.kind {
				case 'B':
					curIdx = m.idx
					json.Unmarshal(m.data, &curID)
				case 'E':
					var out CaseOut
					if err := json.Unmarshal(m.data, &out); err != nil {
						c.infra("bad case output: %v", err)
					}
					c.record(curID, nil, out)
					lastIdx = m.idx
					curIdx = -1
				case 'D':
					done = true
					break loop
				case 'X':
					c.infra("worker: %s", m.data)
				case 0:
					// worker exited
					if curIdx >= 0 {
						key, msg := classifyCrash(wp.fullLog(), false)
						c.record(curID, nil, CaseOut{Viol: []Violation{{Key: key, Msg: msg}}, Outcome: "CRASH", Nontrivial: true})
						lastIdx = curIdx
					} else {
						c.infra("worker exited between cases (after index %d): %s", lastIdx, wp.logTail(1500))
						restarts++
					}
					break loop
				}
			case <-timer.C:
				wp.kill(true)
				if curIdx >= 0 {
					key, msg := classifyCrash(wp.fullLog(), true)
					c.record(curID, nil, CaseOut{Viol: []Violation{{Key: key, Msg: msg}}, Outcome: "HANG", Nontrivial: true})
					lastIdx = curIdx
				} else {
					c.infra("worker silent between cases (after index %d)", lastIdx)
					restarts++
				}
				break loop
			}
		}
		timer.Stop()
		wp.kill(false)
		wp.cleanup()
		if stoppedEarly {
			c.mu.Lock()
			c.exhaustive = false
			c.mu.Unlock()
			return
		}
		if done || job.Only != "" {
			return
		}
		if restarts > 5 {
			c.infra("giving up on shard %d after repeated worker failures", job.Shard)
			c.exhaustive = false
			return
		}
		job.SkipTo = lastIdx + 1
	}
}

// ---- exec pool (custom coordinators) -------------------------------------------------------------

type execResult struct {
	Out     CaseOut
	Crashed bool
	Hung    bool
}

type pool struct {
	c       *Coord
	idle    chan *workerProc
	oneShot bool
}

func (c *Coord) newPool() *pool {
	n := c.Spec.Workers
	if n == 0 {
		n = 16
	}
	if s := os.Getenv("VERIF_WORKERS"); s != "" {
		n, _ = strconv.Atoi(s)
	}
	p := &pool{c: c, idle: make(chan *workerProc, n), oneShot: c.Spec.OneShot}
	for i := 0; i < n; i++ {
		p.idle <- nil
	}
	return p
}

func (p *pool) size() int { return cap(p.idle) }

// exec runs one "exec" job on a pooled worker and waits for its result.
func (p *pool) exec(args any) execResult {
	wp := <-p.idle
	defer func() { p.idle <- wp }()
	raw, _ := json.Marshal(args)
	if wp == nil {
		var err error
		wp, err = startWorker()
		if err != nil {
			p.c.infra("cannot start worker: %v", err)
			wp = nil
			return execResult{Crashed: true, Out: CaseOut{Viol: []Violation{{Key: "harness:start", Msg: err.Error()}}}}
		}
	}
	job := Job{Prop: p.c.Spec.ID, Tier: p.c.Tier, Kind: "exec", Args: raw, Seed: p.c.Seed}
	if err := wp.send(job); err != nil {
		wp.kill(false)
		wp.cleanup()
		wp = nil
		return execResult{Crashed: true, Out: CaseOut{Viol: []Violation{{Key: "harness:send", Msg: err.Error()}}}}
	}
	timer := time.NewTimer(p.c.caseTimeout())
	defer timer.Stop()
	var res execResult
	got := false
	for {
		select {
		case m := <-wp.msgs:
			switch m.kind {
			case 'E':
				json.Unmarshal(m.data, &res.Out)
				got = true
				if p.oneShot {
					wp.kill(false)
					wp.cleanup()
					wp = nil
					return res
				}
			case 'D':
				return res
			case 0:
				if got {
					wp.cleanup()
					wp = nil
					return res
				}
				key, msg := classifyCrash(wp.fullLog(), false)
				res.Crashed = true
				res.Out = CaseOut{Viol: []Violation{{Key: key, Msg: msg}}, Outcome: "CRASH", Nontrivial: true}
				wp.kill(false)
				wp.cleanup()
				wp = nil
				return res
			}
		case <-timer.C:
			if got {
				wp.kill(false)
				wp.cleanup()
				wp = nil
				return res
			}
			wp.kill(true)
			key, msg := classifyCrash(wp.fullLog(), true)
			res.Hung = true
			res.Out = CaseOut{Viol: []Violation{{Key: key, Msg: msg}}, Outcome: "HANG", Nontrivial: true}
			wp.cleanup()
			wp = nil
			return res
		}
	}
}

func (p *pool) close() {
	for i := 0; i < cap(p.idle); i++ {
		wp := <-p.idle
		if wp != nil {
			wp.kill(false)
			wp.cleanup()
		}
	}
}

// ---- known findings ------------------------------------------------------------------------------

type finding struct {
	Property string `json:"property"`
	Key      string `json:"key"`
	Status   string `json:"status"` // "known" | "fixed"
	What     string `json:"what"`
	Commit   string `json:"commit,omitempty"`
}

func verifRoot() string {
	if d := os.Getenv("VERIF_ROOT"); d != "" {
		return d
	}
	return "/verif"
}

func loadFindings() []finding {
	var f struct {
		Findings []finding `json:"findings"`
	}
	b, err := os.ReadFile(filepath.Join(verifRoot(), "known_findings.json"))
	if err != nil {
		return nil
	}
	if err := json.Unmarshal(b, &f); err != nil {
		fmt.Println("WARNING: known_findings.json does not parse:", err)
		return nil
	}
	return f.Findings
}

func knownFinding(fs []finding, prop, key string) *finding {
	for i := range fs {
		if fs[i].Property == prop && fs[i].Status == "known" && fs[i].Key == key {
			return &fs[i]
		}
	}
	return nil
}

// ---- evidence / main ---------------------------------------------------------------------------

type replayFile struct {
	Property string          `json:"property"`
	Tier     string          `json:"tier"`
	CaseID   string          `json:"case_id,omitempty"`
	Args     json.RawMessage `json:"args,omitempty"`
	Key      string          `json:"key"`
	Msg      string          `json:"msg"`
}

func shortHash(s string) string {
	h := sha256.Sum256([]byte(s))
	return hex.EncodeToString(h[:6])
}

// replayOnce re-executes one recorded case in a fresh worker and returns the violation keys seen.
func (c *Coord) replayOnce(rf replayFile) (keys []string, out CaseOut) {
	sub := &Coord{Spec: c.Spec, Tier: rf.Tier, Seed: c.Seed, outcomes: map[string]int{}, counters: map[string]int{}, viol: map[string]*foundViolation{}, exhaustive: true}
	if rf.Args != nil && c.Spec.Exec != nil {
		sub.Spec = &PropSpec{ID: c.Spec.ID, Workers: 1, CaseTimeout: c.Spec.CaseTimeout, OneShot: c.Spec.OneShot}
		p := sub.newPool()
		var a any
		json.Unmarshal(rf.Args, &a)
		r := p.exec(a)
		p.close()
		out = r.Out
	} else {
		sub.runShard(Job{Prop: c.Spec.ID, Tier: rf.Tier, Kind: "shard", NShards: 1, Only: rf.CaseID, Seed: c.Seed})
		for _, k := range sub.violOrder {
			out.Viol = append(out.Viol, Violation{Key: k, Msg: sub.viol[k].Msg})
		}
		out.Counters = map[string]int{"evaluations": sub.evaluations}
	}
	for _, v := range out.Viol {
		keys = append(keys, v.Key)
	}
	return keys, out
}

func contains(s []string, x string) bool {
	for _, y := range s {
		if x == y {
			return true
		}
	}
	return false
}

// TestCoordinator is the entry point used by /verif/vcheck.
func TestCoordinator(t *testing.T) {
	id := os.Getenv("VERIF_PROP")
	if id == "" {
		t.Skip("no VERIF_PROP")
	}
	spec := props[id]
	if spec == nil {
		fmt.Printf("unknown property %s\n", id)
		os.Exit(2)
	}
	tier := os.Getenv("VERIF_TIER")
	if tier == "" {
		tier = "quick"
	}
	seed, _ := strconv.ParseInt(os.Getenv("VERIF_SEED"), 10, 64)
	c := &Coord{Spec: spec, Tier: tier, Seed: seed, start: time.Now(), outcomes: map[string]int{}, counters: map[string]int{}, viol: map[string]*foundViolation{}, exhaustive: true}
	c.findings = loadFindings()

	if rp := os.Getenv("VERIF_REPLAY"); rp != "" {
		b, err := os.ReadFile(rp)
		if err != nil {
			fmt.Println("cannot read replay file:", err)
			os.Exit(2)
		}
		var rf replayFile
		if err := json.Unmarshal(b, &rf); err != nil {
			fmt.Println("bad replay file:", err)
			os.Exit(2)
		}
		keys, out := c.replayOnce(rf)
		ob, _ := json.MarshalIndent(out, "", "  ")
		fmt.Printf("replay of %s (recorded key %q):\n%s\n", rp, rf.Key, ob)
		if len(keys) > 0 {
			fmt.Printf("VIOLATION property=%s replay=%s\n", id, rp)
			os.Exit(1)
		}
		fmt.Println("no violation on replay")
		os.Exit(0)
	}

	if spec.Coord != nil {
		spec.Coord(c)
	} else {
		c.runShards()
	}

	// classify violations
	findings := c.findings
	exit := 0
	var unstable []string
	harnessFailed := false
	var knownHit, reported []string
	replayDir := filepath.Join(verifRoot(), "replays", id)
	sort.Strings(c.violOrder)
	for _, key := range c.violOrder {
		fv := c.viol[key]
		if f := knownFinding(findings, id, key); f != nil {
			fmt.Printf("KNOWN-FINDING: property=%s %s [key=%s, %d case(s), e.g. %s]\n", id, f.What, key, fv.Count, oneLine(fv.CaseID, 160))
			knownHit = append(knownHit, key)
			continue
		}
		rf := replayFile{Property: id, Tier: tier, CaseID: fv.CaseID, Args: fv.Args, Key: key, Msg: fv.Msg}
		if strings.HasPrefix(key, "harness:") {
			// the harness itself could not set a case up (a port taken, a daemon slow to start, ...): nothing was learned
			// about the property. Try the case again; only a set-up failure that persists stops the check (as a harness
			// error, exit 2, never as a violation).
			persists := true
			for i := 0; i < 3 && persists; i++ {
				keys, _ := c.replayOnce(rf)
				still := false
				for _, k := range keys {
					if strings.HasPrefix(k, "harness:") {
						still = true
					}
				}
				persists = still
			}
			if persists {
				fmt.Printf("HARNESS-ERROR: property=%s %s: %s (case %s)\n", id, key, oneLine(fv.Msg, 300), oneLine(fv.CaseID, 160))
				harnessFailed = true
				c.exhaustive = false
			} else {
				fmt.Printf("HARNESS-NOTE: %s in case %s did not recur when the case was run again\n", key, oneLine(fv.CaseID, 160))
				c.notes = append(c.notes, fmt.Sprintf("transient set-up failure %s in %s; the case passed when run again", key, oneLine(fv.CaseID, 120)))
			}
			continue
		}
		if len(reported) >= 5 {
			// enough confirmed violations to fail the check: further keys of the same run are listed, not re-run
			fmt.Printf("ALSO-SEEN (not re-run, %d violations are already confirmed): property=%s key=%s case=%s\n", len(reported), id, key, oneLine(fv.CaseID, 160))
			continue
		}
		// confirm: the same case must fail with the same key every time
		confirmed := true
		if os.Getenv("VERIF_NOCONFIRM") == "" && !strings.HasPrefix(key, "harness:") {
			cands := append([]altCase{{CaseID: fv.CaseID, Args: fv.Args, Msg: fv.Msg}}, fv.Alts...)
			confirmed = false
			for _, cand := range cands {
				try := replayFile{Property: id, Tier: tier, CaseID: cand.CaseID, Args: cand.Args, Key: key, Msg: cand.Msg}
				// three independent re-runs, at the same time (each is its own process)
				oks := make([]bool, 3)
				var cwg sync.WaitGroup
				for i := 0; i < 3; i++ {
					cwg.Add(1)
					go func(i int) {
						defer cwg.Done()
						keys, _ := c.replayOnce(try)
						oks[i] = contains(keys, key)
					}(i)
				}
				cwg.Wait()
				ok := oks[0] && oks[1] && oks[2]
				if ok {
					confirmed = true
					rf = try
					fv.CaseID, fv.Msg = cand.CaseID, cand.Msg
					break
				}
			}
		}
		os.MkdirAll(replayDir, 0o755)
		path := filepath.Join(replayDir, shortHash(key)+".json")
		b, _ := json.MarshalIndent(rf, "", "  ")
		os.WriteFile(path, b, 0o644)
		if !confirmed {
			unstable = append(unstable, key)
			fmt.Printf("UNSTABLE (not reported as violation): property=%s key=%s case=%s replay=%s\n", id, key, oneLine(fv.CaseID, 160), path)
			c.exhaustive = false
			continue
		}
		fmt.Printf("VIOLATION property=%s replay=%s\n", id, path)
		fmt.Printf("  key: %s\n  case: %s\n  %s\n", key, oneLine(fv.CaseID, 300), indent(fv.Msg, "  "))
		reported = append(reported, key)
		exit = 1
	}
	if exit == 0 && c.stopFlag && len(unstable) > 0 && os.Getenv("VERIF_SECOND_PASS") == "" {
		// the run was cut short by a violation that then did not reproduce: what lies behind it was never
		// explored. Run the whole check again, this time without stopping at the first violation.
		fmt.Println("NOTE: stopped at a violation that did not reproduce; running the whole check again without fail-fast")
		os.Setenv("VERIF_SECOND_PASS", "1")
		os.Setenv("VERIF_NOFAILFAST", "1")
		if err := syscall.Exec(os.Args[0], os.Args, os.Environ()); err != nil {
			fmt.Println("HARNESS-NOTE: second pass could not be started:", err)
		}
	}
	if c.counters["capped_scenarios"] > 0 {
		c.exhaustive = false
	}
	if len(c.infraErrors) > 0 {
		c.exhaustive = false
		for i, e := range c.infraErrors {
			if i < 5 {
				fmt.Println("HARNESS-NOTE:", oneLine(e, 400))
			}
		}
	}

	// evidence
	cov := map[string]any{
		"evaluations":                c.evaluations,
		"distinct_nontrivial":        c.nontrivial,
		"rule":                       spec.Rule,
		"samples":                    c.samples,
		"exhaustive":                 c.exhaustive,
		"distinct_outcomes":          len(c.outcomes),
		"outcomes":                   c.outcomes,
		"counters":                   c.counters,
		"known_findings_hit":         knownHit,
		"violations_reported":        reported,
		"unstable":                   unstable,
		"harness_notes":              c.notes,
		"harness_errors":             len(c.infraErrors),
		"workers":                    spec.Workers,
		"stopped_at_first_violation": c.stopFlag,
	}
	if c.states == 0 && c.counters["states"] > 0 {
		c.states = c.counters["states"]
		c.transitions = c.counters["transitions"]
	}
	if c.states > 0 {
		cov["states"] = c.states
		cov["transitions"] = c.transitions
		cov["traces_validated_against_impl"] = c.evaluations
		if c.counters["executions"] > 0 {
			cov["traces_validated_against_impl"] = c.counters["executions"]
		}
	}
	for k, v := range c.extraCov {
		cov[k] = v
	}
	if len(c.samples) == 0 {
		cov["samples"] = []any{"(no samples recorded)"}
	}
	ev := map[string]any{
		"property_id": id,
		"tier":        tier,
		"seed":        seed,
		"level":       spec.Level,
		"coverage":    cov,
		"assumptions": spec.Assumptions,
		"wall_s":      time.Since(c.start).Seconds(),
		"violations":  len(reported),
		"technique":   spec.Technique,
		"go":          runtime.Version(),
	}
	os.MkdirAll(filepath.Join(verifRoot(), "evidence"), 0o755)
	eb, _ := json.MarshalIndent(ev, "", " ")
	if err := os.WriteFile(filepath.Join(verifRoot(), "evidence", id+".json"), eb, 0o644); err != nil {
		fmt.Println("cannot write evidence:", err)
		os.Exit(2)
	}
	fmt.Printf("%s %s: evaluations=%d nontrivial=%d outcomes=%d states=%d transitions=%d known=%d violations=%d exhaustive=%v wall=%.1fs\n",
		id, tier, c.evaluations, c.nontrivial, len(c.outcomes), c.states, c.transitions, len(knownHit), len(reported), c.exhaustive, time.Since(c.start).Seconds())
	if c.evaluations == 0 {
		fmt.Println("HARNESS-ERROR: nothing was explored")
		os.Exit(2)
	}
	if harnessFailed && exit == 0 {
		os.Exit(2)
	}
	os.Exit(exit)
}

func oneLine(s string, max int) string {
	s = strings.ReplaceAll(s, "\n", " ")
	if len(s) > max {
		s = s[:max] + "…"
	}
	return s
}

func indent(s, p string) string {
	l := strings.Split(s, "\n")
	if len(l) > 25 {
		l = l[:25]
	}
	return strings.Join(l, "\n"+p)
}

// bubble runs f in a testing/synctest bubble. Goroutines of the system under test that never end make
// synctest panic when the bubble's main function returns; that is not the case's verdict (leaks are
// C17's subject), so the panic is absorbed here and what the case recorded so far is kept.
func bubble(t *testing.T, f func(t *testing.T)) (leaked bool) {
	defer func() {
		if r := recover(); r != nil {
			if strings.Contains(fmt.Sprint(r), "blocked goroutines remain") {
				leaked = true
				return
			}
			panic(r)
		}
	}()
	synctest.Test(t, f)
	return false
}
