#!/bin/bash
# seedcheck.sh <worktree> <property> [tier]: confirm a seeded change (demo fails with / passes without), then run the check on /repo with it.
WT=$1; PROP=$2; TIER=${3:-quick}
export GOFLAGS=-mod=mod GOPROXY=off GOSUMDB=off
cd $WT || exit 2
CMD=$(python3 -c "import json;print(json.load(open('SEED/meta.json'))['demo_cmd'])")
CMD=$(echo "$CMD" | sed -e 's/export GOFLAGS=[^;]*;//' -e "s#<worktree>#$WT#g" -e 's/  *#.*$//')
echo "== demo with patch (expect FAIL): $CMD"
( eval "$CMD" ) > /tmp/seed_demo_with.log 2>&1; echo "rc=$? $(grep -cE '^--- FAIL' /tmp/seed_demo_with.log) FAIL lines"
git apply -R SEED/patch.diff || { echo "cannot revert patch"; exit 2; }
echo "== demo without patch (expect PASS)"
( eval "$CMD" ) > /tmp/seed_demo_without.log 2>&1; echo "rc=$? $(grep -cE '^--- FAIL' /tmp/seed_demo_without.log) FAIL lines; $(tail -1 /tmp/seed_demo_without.log)"
git apply SEED/patch.diff
echo "== check $PROP on /repo with the patch"
cd /repo && git apply --check $WT/SEED/patch.diff && git apply $WT/SEED/patch.diff || { echo "patch does not apply to /repo"; exit 2; }
trap 'git -C /repo checkout -- .' EXIT
cd /verif && ./vcheck $PROP --tier $TIER 2>&1 | grep -E "^VIOLATION|^KNOWN|key:|^$PROP |HARNESS|UNSTABLE" | cut -c1-250 | head -12
