#!/usr/bin/env python3
"""mkmut.py <name> (<file-relative-to-/repo> <old> <new>)+ : writes /verif/mutants/<name>.diff, repo left unchanged; checks it compiles."""
import sys,subprocess,os
name=sys.argv[1]; a=sys.argv[2:]
try:
    for i in range(0,len(a),3):
        f,old,new=a[i:i+3]
        p='/repo/'+f
        s=open(p).read()
        assert s.count(old)==1,(name,f,'occurrences',s.count(old))
        open(p,'w').write(s.replace(old,new))
    env=dict(os.environ,GOFLAGS='-mod=mod',GOPROXY='off',GOSUMDB='off')
    r=subprocess.run(['go','build','./pkg/...','./cmd/...'],cwd='/repo',env=env,capture_output=True,text=True)
    if r.returncode!=0:
        print("DOES NOT COMPILE",r.stderr[:500])
    else:
        d=subprocess.run(['git','-C','/repo','diff'],capture_output=True,text=True).stdout
        open('/verif/mutants/%s.diff'%name,'w').write(d)
        print("wrote",name)
finally:
    subprocess.run(['git','-C','/repo','checkout','--','.'])
