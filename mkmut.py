#!/usr/bin/env python3
"""mkmut.py <name> <file-relative-to-/repo> <old> <new>: writes /verif/mutants/<name>.diff (repo left unchanged)."""
import sys,subprocess
name,f,old,new=sys.argv[1:5]
p='/repo/'+f
s=open(p).read()
assert s.count(old)==1,(name,'occurrences',s.count(old))
open(p,'w').write(s.replace(old,new))
d=subprocess.run(['git','-C','/repo','diff'],capture_output=True,text=True).stdout
open('/verif/mutants/%s.diff'%name,'w').write(d)
subprocess.run(['git','-C','/repo','checkout','--','.'])
print("wrote",name)
