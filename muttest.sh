#!/bin/bash
# muttest.sh <property> <patch.diff> [tier]: apply a patch to /repo, run the check, always revert.
PROP=$1; PATCH=$2; TIER=${3:-quick}
cd /repo || exit 2
if ! git apply --check "$PATCH" 2>/dev/null; then echo "patch does not apply: $PATCH"; exit 2; fi
git apply "$PATCH"
trap 'git -C /repo checkout -- . ' EXIT
cd /verif && ./vcheck "$PROP" --tier "$TIER" 2>&1 | grep -E "VIOLATION|KNOWN|key:|^C[0-9]+ |HARNESS|UNSTABLE" | head -20
echo "exit=${PIPESTATUS[0]}"
