#!/bin/bash
# Builds the harness once (warms the go1.26.8 build cache under /verif/.cache); offline.
set -e
cd "$(dirname "$0")"
export GOFLAGS=-mod=mod GOPROXY=off GOSUMDB=off GOTOOLCHAIN=local
export GOCACHE="$PWD/.cache/go-build"
mkdir -p "$GOCACHE" .cache/bin evidence
cp /repo/go.sum harness/go.sum
(cd harness && go1.26.8 test -c -tags verif -vet=off -o ../.cache/bin/harness.test .)
(cd /repo && go1.26.8 build -tags verif -o /verif/.cache/bin/receptor-verif ./cmd/receptor-cl)
echo setup ok
