#!/bin/bash
# seedkeep.sh <worktree> <property> <suffix>: confirm a sub-agent's seeded change with seedcheck.sh and, when the
# demonstration fails with / passes without the change, store it as /verif/seeded/<property>-<suffix>/.
WT=$1; PROP=$2; SUF=$3
cd /verif || exit 2
out=$(./seedcheck.sh $WT $PROP quick 2>&1); echo "$out"
with=$(echo "$out" | sed -n '2p'); without=$(echo "$out" | sed -n '4p')
case "$with" in rc=0*) echo "NOT KEPT: demonstration passes with the change"; exit 1;; esac
case "$without" in rc=0*) ;; *) echo "NOT KEPT: demonstration fails without the change"; exit 1;; esac
D=seeded/$PROP-$SUF; mkdir -p $D
cp $WT/SEED/patch.diff $D/; for f in $WT/SEED/*_test.go.txt; do cp $f $D/; done
key=$(echo "$out" | grep -m1 "key:" | sed 's/^ *key: //')
python3 - "$WT/SEED/meta.json" "$D/meta.json" "$PROP" "$key" "$WT" <<'PY'
import json,sys
src,dst,prop,key,wt=sys.argv[1:]
m=json.load(open(src))
m['verification']={"property_id":prop,"author":"fresh sub-agent (fifth wave) given only the property text, a list of sites earlier waves had used, and a scratch worktree of /repo",
 "confirmed_by":f"seedkeep.sh {wt} {prop} (demonstration fails with / passes without the patch in the worktree; then applied to /repo, ./vcheck {prop}, reverted)",
 "caught_by_check_as_it_was":bool(key),"caught_by_check_now":bool(key),"violation_key":key,"check_strengthened":""}
json.dump(m,open(dst,'w'),indent=1)
PY
echo "KEPT $D key=${key:-none}"
