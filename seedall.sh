#!/bin/bash
# seedall.sh [tier]: apply every stored seeded change to /repo in turn, run the property's check, revert; print one line per change.
# (needs a clean /repo working tree; leaves it clean)
TIER=${1:-quick}
cd /verif || exit 2
if [ -n "$(git -C /repo status --porcelain --untracked-files=no)" ]; then echo "/repo working tree is not clean"; exit 2; fi
for d in seeded/*/; do
  id=$(basename $d); prop=${id%%-*}
  if ! git -C /repo apply --check /verif/$d/patch.diff 2>/dev/null; then echo "$id: patch does not apply to the current /repo"; continue; fi
  git -C /repo apply /verif/$d/patch.diff
  out=$(./vcheck $prop --tier $TIER 2>&1); rc=$?
  git -C /repo checkout -- .
  key=$(echo "$out" | grep -m1 "^  key:" | sed 's/^  key: //')
  echo "$id: rc=$rc $(echo "$out" | grep -c '^VIOLATION') violation line(s); first key: ${key:-none}; $(echo "$out" | tail -1 | cut -c1-120)"
done
