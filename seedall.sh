#!/bin/bash
# seedall.sh [tier] [regex]: apply every stored seeded change (whose directory name matches regex) to /repo in turn,
# run the property's check, revert; one line per change is written to seeded/RESULTS.txt (replacing an older line
# for the same change). Needs a clean /repo working tree and leaves it clean.
TIER=${1:-quick}; FILTER=${2:-.}
cd /verif || exit 2
if [ -n "$(git -C /repo status --porcelain --untracked-files=no)" ]; then echo "/repo working tree is not clean"; exit 2; fi
touch seeded/RESULTS.txt
for d in seeded/*/; do
  id=$(basename $d); prop=${id%%-*}
  echo "$id" | grep -Eq "$FILTER" || continue
  if ! git -C /repo apply --check /verif/$d/patch.diff 2>/dev/null; then line="$id: patch does not apply to the current /repo"; else
    git -C /repo apply /verif/$d/patch.diff
    out=$(./vcheck $prop --tier $TIER 2>&1); rc=$?
    git -C /repo checkout -- .
    key=$(echo "$out" | grep -m1 "^  key:" | sed 's/^  key: //')
    line="$id: rc=$rc $(echo "$out" | grep -c '^VIOLATION') violation line(s); first key: ${key:-none}; $(echo "$out" | tail -1 | cut -c1-120)"
  fi
  echo "$line"
  grep -v "^$id:" seeded/RESULTS.txt > seeded/RESULTS.tmp; echo "$line" >> seeded/RESULTS.tmp; sort seeded/RESULTS.tmp > seeded/RESULTS.txt; rm -f seeded/RESULTS.tmp
done
